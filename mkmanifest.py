#!/usr/bin/env python3
"""Regenerates MANIFEST.json from the table below (kept in one place so the
manifest stays valid while checks are added)."""
import json
import os

ROOT = os.path.dirname(os.path.abspath(__file__))
PY = "/verif/.venv/bin/python"

LEVEL_TEXT = ("Bounded symbolic execution of the real torrentfile source (symx: z3 decides every branch and every "
              "obligation; a 'holds' covers all values of the symbolic inputs within the stated bounds, a 'sat' is "
              "replayed on the unmodified package with real files before it is reported).")
NOTE = ("Trusted base: the environment model of DESIGN.md section 3 (injective hash model, abstract filesystem, pyben "
        "pass-through, stubbed progress bars), z3, and the bounds recorded in the evidence file. Outside the bounds "
        "nothing is claimed.")

CHECKS = {
    # id: (design_ref, technique, extra level text)
    "C01": ("5/C01", "symbolic execution (symx) of TorrentFile/Hasher/filelist_total vs BEP 3 reference; z3",
            "sizes, listing order, zero-tail offsets and (hasher jobs) the piece length are solver variables; trees, names, path spellings, routes, progress modes and histories are covered by a pairwise configuration matrix"),
    "C02": ("5/C02", "symbolic execution (symx) of the four v2/hybrid creators and all v2 hashers vs two BEP 52 reference formulations; z3",
            "file sizes, zero-tail offsets and listing order are solver variables; piece length and the other request dimensions are configurations (pairwise matrix)"),
    "C03": ("5/C03", "symbolic execution (symx) of both hybrid creators; v1 view vs v2 view vs BEP 3 reference of the listed stream; z3",
            "file sizes and listing order are solver variables"),
    "C06": ("5/C06", "symbolic execution (symx) of all creators + MetaFile.sort_meta/write + edit_torrent; canonical-order and structure obligations on the object handed to pyben.dump; digest byte order as symbolic ranks; z3",
            "sizes (which files have layers), digest ranks, option subsets and edit requests are solver variables / forked choices"),
    "C07": ("5/C07", "symbolic execution (symx) of filter_empty/edit_torrent/commands.edit over opaque strings (observational abstraction) with forked field choices and base key presence; z3",
            "field choices, key presence, emptiness and word counts of the opaque strings are forked; holds for strings of any length"),
    "C08": ("5/C08", "symbolic execution (symx) non-interference harness: the same symbolic payload created twice in one path under two independent copies of clock, listing order, location, path spelling, cwd, trackers, outfile, progress; z3",
            "sizes, both clocks and both listing permutations are solver variables; path spellings are a finite grammar"),
    "C09": ("5/C09", "symbolic execution (symx) history harness: op1; filesystem change; op2 inside one World (= one process, module and class state kept) vs the same op2 in a freshly loaded World on a copy of the state; z3",
            "file sizes before and after each change are solver variables; operations and change kinds are configurations"),
    "C10": ("5/C10", "symbolic execution (symx): pairwise equality of creators' metafiles and of all hashers' outputs on the same symbolic payload; z3",
            "file sizes and listing order are solver variables"),
    "C04": ("5/C04-C05-C16", "symbolic execution (symx) of Checker/FeedChecker/HashChecker/FileHasher on symbolic sizes and damage positions; z3 decides 'result < 100'; QF_FP lemma per float expression shape",
            "file sizes, truncation lengths and flip offsets are solver variables; damage kind per file is a configuration; needs A-hash/A-generic"),
    "C05": ("5/C04-C05-C16", "symbolic execution (symx) of Checker.find_root/check_paths/FeedChecker/HashChecker on reference-encoder and own-creator metafiles; z3 + QF_FP lemmas (L-pct and one per float expression shape that produced a judged result)",
            "file sizes are solver variables; both content-path choices; float rounding closed by a bit-precise z3 lemma"),
    "C16": ("5/C04-C05-C16", "symbolic execution (symx) of the recheck iterators vs a reference piece table; percentage compared as exact rational; z3",
            "file sizes, truncation lengths and flip offsets are solver variables"),
    "C11": ("5/C11", "symbolic execution (symx) of commands.magnet/get_magnet over opaque strings with forked key presence and list lengths; info bytes as an opaque bencoding token, injective hash and quote_plus tagging models; z3",
            "key presence, tracker tiers, web-seed count and the requested version are forked; names/URLs are opaque (any length/alphabet); real quote_plus exercised concretely in validation and replays"),
    "C12": ("5/C12", "symbolic execution (symx) of normalize_piece_length/get_piece_length/MetaFile.__init__ over a symbolic integer (|x|<2^64 and up to 2^1100) and symbolic character-class strings; z3 LIA + bit decomposition + QF_FP lemmas",
            "the argument (integer, or string of <= 8 symbolic character classes) and the payload sizes are solver variables; floats havoc'd and confirmed by replay"),
    "C17": ("5/C17", "symbolic execution (symx) of edit_torrent on the fault-injecting abstract filesystem: crash/error at a symbolic operation index; z3",
            "the fault's operation index, short-write lengths and encoded lengths are solver variables; user-space buffering of writes of unknown length is forked; fault kind, request and history (edit after a killed edit) are configurations"),
    "C18": ("5/C18", "symbolic execution (symx) of cli.execute -> commands.info/recheck/magnet/create/rename on the abstract filesystem with mutation log (closed-world import guard); final-state and log obligations; z3",
            "file sizes and damage positions are solver variables, so the log is judged on every iterator path; argument vectors are configurations"),
    "C13": ("5/C13-C14", "symbolic execution (symx) of Assembler/Metadata/PieceNode/_index_contents/copypath/HasherV2 on a writable abstract filesystem: symbolic sizes and listing orders, decoys; final-state obligations; z3",
            "file sizes and directory listing orders are solver variables; search layouts and decoy placement are configurations"),
    "C14": ("5/C13-C14", "symbolic execution (symx) of the rebuild on the AFS mutation log: every mkdir/copy judged, protected destination files, second rebuild idempotent; z3",
            "file sizes, the length of a pre-existing shorter destination file and listing orders are solver variables"),
    "C15": ("5/C15", "symbolic execution (symx) of TorrentFile(align=True)/Hasher vs gap arithmetic and BEP 3 reference; z3",
            "file sizes and listing order are solver variables; modulo by a concrete piece length stays linear"),
    "C19": ("5/C19", "symbolic execution (symx) of the rebuild with hostile torrent names / path elements (finite family from the property) on the AFS mutation log; symbolic sizes cover every path to the copy; z3",
            "file sizes are solver variables; hostile strings are the property's own finite family"),
    "C20": ("5/C20", "symbolic execution (symx) of commands.create/parse_config_file/MetaFile.__init__ through three routes (argparse contract learnt from the real parser, INI mapping, keywords) on opaque option values; z3",
            "option values are opaque strings with forked true/false/emptiness observations; payload size is a solver variable; argument orders are configurations"),
}

NOT_YET = {
}


def main():
    props = [json.loads(l) for l in open(os.path.join(ROOT, "properties.jsonl"))]
    checks = []
    na = []
    for p in props:
        pid = p["id"]
        if pid in CHECKS:
            ref, tech, extra = CHECKS[pid]
            checks.append({
                "property_id": pid,
                "quick_cmd": "%s run.py %s --tier quick" % (PY, pid),
                "thorough_cmd": "%s run.py %s --tier thorough" % (PY, pid),
                "evidence_file": "/verif/evidence/%s.json" % pid,
                "replay_cmd_template": "%s run.py %s --replay {path}" % (PY, pid),
                "engine": "symx",
                "level_claimed": {"category": "model_checking", "text": LEVEL_TEXT + " " + extra, "design_ref": ref},
                "level_note": NOTE,
                "technique": tech,
            })
        else:
            na.append({"property_id": pid, "reason": NOT_YET.get(
                pid, "check not built yet in this round (solver-based harness planned in DESIGN.md section 5); no claim made")})
    man = {
        "version": 1,
        "setup_cmd": "sh /verif/setup.sh",
        "hooks": {"guard": "TORRENTFILE_VERIF", "enable": "none needed: symx loads /repo/torrentfile/*.py from the working tree "
                  "and injects its environment model at import time; no source hooks exist",
                  "baseline_off_cmd": "cd /repo && /venv/bin/python -m pytest -ra -q -p no:cacheprovider --timeout=900 "
                                      "--continue-on-collection-errors",
                  "source_commits": [], "add_only": True},
        "engines": [
            {"name": "symx", "path": "/verif/symx", "serves_properties": sorted(CHECKS),
             "kind_free_text": "own path-exploring symbolic executor for Python over z3 (SMT): real source re-loaded from "
                               "/repo on every run, integers symbolic, forks decided by the solver, counterexamples replayed"},
        ],
        "checks": checks,
        "not_applicable": na,
        "notes": "See DESIGN.md. exit 0 = held within bounds; exit 1 = replayed VIOLATION; exit 2 = inconclusive/harness error.",
    }
    with open(os.path.join(ROOT, "MANIFEST.json"), "w") as f:
        json.dump(man, f, indent=1)
    print("MANIFEST.json: %d checks, %d not_applicable" % (len(checks), len(na)))


if __name__ == "__main__":
    main()
