"""C10: all creators and all hashers agree on the same payload."""
import os

from symx.core import tb, disj
from symx.abuf import ABuf
from symx.afs import AFS
from symx.loader import World, ben_equal

from harness import creators as cr
from harness import c02
from harness.creators import SHAPES, BLOCK
import refconc

PROPERTY = "C10"
MODULES = ["torrent", "hasher", "utils", "mixins", "cli", "commands"]
ASSUMPTIONS = [
    "A-hash model (injective sha1/sha256)",
    "agreement is judged on the metafile dictionaries as mappings (key order is C06's business), creation date removed",
    "piece length is a configuration; sizes and listing order are solver variables",
]
WITNESSES = ["size == P+1", "size < B", "multi-piece file"]


def BOUNDS(tier):
    q = tier == "quick"
    return {"hashers": "HasherV2, HasherHybrid, FileHasher(+hybrid): single file size in [1, K*P], K=%d, P in {16,32,64} KiB" % (5 if q else 9),
            "creators": "(TorrentAssembler v2, TorrentFileV2), (TorrentAssembler hybrid, TorrentFileHybrid) on single/flat2/nested3"
                        + ("" if q else "/order2/nested4"),
            "outside": "other piece lengths, more files, larger sizes"}


def jobs(tier):
    q = tier == "quick"
    out = []
    for P in (16384, 32768, 65536) + (() if q else (131072,)):
        out.append(("hashers.P%d" % P, "job_hashers", dict(P=P, K=(5 if q else 9) if P < 131072 else 4)))
    for base in (2 ** 20, 2 ** 21):          # around read-buffer sized boundaries far above a piece
        out.append(("hashers-big.P32768.base%d" % base, "job_hashers", dict(P=32768, K=2, base=base)))
    for shp in cr.scheme_shapes(["flat2", "nested3"], tier):
        for pair in (("2a", "2c"), ("3a", "3c")):
            out.append(("%s.%s.P16384" % ("v2" if pair[0] == "2a" else "hybrid", shp), "job_pair",
                        dict(pair=pair, shape=shp, P=16384, K=1, order="reversed")))
    for pair in (("2a", "2c"), ("3a", "3c")):
        tag = "v2" if pair[0] == "2a" else "hybrid"
        out.append(("%s.seq.P16384-then-P32768" % tag, "job_pair_seq", dict(pair=pair, P1=16384, P2=32768)))
        out.append(("%s.seq.P65536-then-P16384" % tag, "job_pair_seq", dict(pair=pair, P1=65536, P2=16384)))
        out.append(("%s.flat2.P16384.empty-directories" % tag, "job_pair", dict(pair=pair, shape="flat2", P=16384, K=1, order="reversed", emptydirs=True)))
        for i, sp in enumerate(sorted(cr.SPELLINGS)):
            for shp in ("selfdir", "suffixdir"):
                if q and (i + (shp == "selfdir")) % 2:
                    continue
                out.append(("%s.%s.spelled-%s" % (tag, shp, sp), "job_pair", dict(pair=pair, shape=shp, P=16384, K=1, order="reversed", spelling=sp)))
        from harness import matrix
        for i, row in matrix.rows(tier):
            out.append(("%s.matrix.%s" % (tag, matrix.label(i, row)), "job_matrix", dict(pair=pair, row=row)))
        out.append(("%s.single.P32768" % tag, "job_pair", dict(pair=pair, shape="single", P=32768, K=4, order="reversed")))
        out.append(("%s.flat2.P16384" % tag, "job_pair", dict(pair=pair, shape="flat2", P=16384, K=3, order="symbolic")))
        out.append(("%s.nested3.P16384" % tag, "job_pair", dict(pair=pair, shape="nested3", P=16384, K=2, order="reversed")))
        out.append(("%s.mixedcase2.P16384" % tag, "job_pair", dict(pair=pair, shape="mixedcase2", P=16384, K=2, order="symbolic")))
        out.append(("%s.hidden2.P16384" % tag, "job_pair", dict(pair=pair, shape="hidden2", P=16384, K=1, order="reversed")))
        out.append(("%s.dir1.P16384" % tag, "job_pair", dict(pair=pair, shape="dir1", P=16384, K=2, order="reversed")))
        out.append(("%s.order2.P16384" % tag, "job_pair", dict(pair=pair, shape="order2", P=16384, K=1, order="reversed")))
        out.append(("%s.flat2~prefix.P16384" % tag, "job_pair", dict(pair=pair, shape="flat2~prefix", P=16384, K=1, order="reversed")))
        if not q:
            out.append(("%s.order2.P32768" % tag, "job_pair", dict(pair=pair, shape="order2", P=32768, K=3, order="symbolic")))
            out.append(("%s.nested4.P16384" % tag, "job_pair", dict(pair=pair, shape="nested4", P=16384, K=2, order="reversed")))
            out.append(("%s.flat2.P65536" % tag, "job_pair", dict(pair=pair, shape="flat2", P=65536, K=3, order="reversed")))
    return out


def job_hashers(E, P, K, base=0, _mutants=None):
    fs = AFS()
    s = E.int("s0", base + 1, base + K * P)
    path = fs.add("/data/f", ("f", 0), s)
    w = World(fs, mutants=_mutants)
    res = {}
    for h in c02.HASHERS:
        try:
            res[h] = c02.run_hasher(w, h, path, P)
        except Exception as ex:  # noqa: BLE001
            E.fail("C10.hasher.no-exception", "%s: %s: %s" % (h, type(ex).__name__, ex))
            return
    base = res["HasherV2"]
    for h in c02.HASHERS[1:]:
        E.check(res[h][0] == base[0], "C10.hashers.root", "%s vs HasherV2" % h)
        E.check(res[h][1] is not None and base[1] is not None and res[h][1] == base[1], "C10.hashers.layer", "%s vs HasherV2" % h)
    a, b = res["HasherHybrid"], res["FileHasher.hybrid"]
    E.check(a[2] == b[2], "C10.hashers.v1-pieces", "HasherHybrid vs FileHasher(hybrid)")
    E.check(ben_equal(a[3], b[3], ordered=False) if (a[3] is not None and b[3] is not None) else (a[3] is None and b[3] is None),
            "C10.hashers.padding", "padding description: %r vs %r" % (a[3], b[3]))
    E.witness("size == P+1", s == P + 1)
    E.witness("size < B", s < BLOCK)
    E.witness("multi-piece file", s > 2 * P)


def strip(meta):
    m = dict(meta)
    m.pop("creation date", None)
    return m


EMPTY_DIRS = ["name/empty", "name/d/hollow/inner", "name/.keep"]


def job_pair(E, pair, shape, P, K, order, spelling=None, emptydirs=False, _mutants=None):
    fs, sizes = cr.make_fs(E, shape, K, P, order=order, lo=1 if shape == "single" else 0)
    if shape != "single":
        E.assume(disj(*[s > 0 for s in sizes.values()]))
    if emptydirs:
        for d in EMPTY_DIRS:
            fs.mkdirs("/data/" + d)
    path = cr.spelled(fs, spelling) if spelling else "/data/name"
    metas = []
    for which in pair:
        w = World(fs, mutants=_mutants)
        try:
            t = cr.create(w, which, path=path, piece_length=P, progress=0)
        except Exception as ex:  # noqa: BLE001
            E.fail("C10.no-exception", "%s: %s: %s" % (which, type(ex).__name__, ex))
            return
        metas.append(strip(t.meta))
    a, b = metas
    E.check(ben_equal(a["info"], b["info"], ordered=False), "C10.creators.info", "info dictionaries of %s and %s differ" % pair)
    E.check(ben_equal(a.get("piece layers"), b.get("piece layers"), ordered=False), "C10.creators.piece-layers")
    E.check(ben_equal(a, b, ordered=False), "C10.creators.meta")


def job_matrix(E, pair, row, _mutants=None):
    """One row of the configuration matrix: both creators of the pair get the same request on the same tree."""
    from harness import matrix
    from symx.core import Unsupported
    fs, w, sizes, Pn, shape, contents, path, arg = matrix.build(E, row, pair[0], False, _mutants)
    E.note("row", dict(row))
    metas = []
    for which in pair:
        r = dict(row)
        if which not in ("1", "2a", "3a") and r["route"] == "cli":
            r["route"] = "path"          # the class creators are not reachable from the command line
        try:
            metas.append(strip(matrix.request(World(fs, mutants=_mutants), which, r, path, arg)))
        except Unsupported:
            raise
        except SystemExit as ex:
            E.fail("C10.matrix.parser-accepts", str(ex))
            return
        except Exception as ex:  # noqa: BLE001
            E.fail("C10.matrix.no-exception", "%s: %s: %s" % (which, type(ex).__name__, ex))
            return
    a, b = metas
    E.check(ben_equal(a["info"], b["info"], ordered=False), "C10.matrix.info", "info dictionaries of %s and %s differ (row %r)" % (pair[0], pair[1], row))
    E.check(ben_equal(a.get("piece layers"), b.get("piece layers"), ordered=False), "C10.matrix.piece-layers")


def job_pair_seq(E, pair, P1, P2, _mutants=None):
    """One process creates with piece length P1 (both creators), then with P2: the
    second pair must still agree (no state may leak between runs)."""
    fs = AFS(order="reversed")
    s0 = E.int("s0", 2 * P1 + 1, 3 * P1)
    s1 = E.int("s1", 2 * P2 + 1, 3 * P2)
    fs.add("/data/one", ("f", 0), s0)
    fs.add("/data/name", ("f", 1), s1)
    E.note("shape", "single")
    w = World(fs, mutants=_mutants)
    metas = []
    try:
        for which in pair:
            cr.create(w, which, path="/data/one", piece_length=P1, progress=0)
        for which in pair:
            metas.append(strip(cr.create(w, which, path="/data/name", piece_length=P2, progress=0).meta))
    except Exception as ex:  # noqa: BLE001
        E.fail("C10.no-exception", "%s: %s" % (type(ex).__name__, ex))
        return
    a, b = metas
    E.check(ben_equal(a, b, ordered=False), "C10.creators.seq.meta", "after an earlier run with piece length %d the creators %s disagree" % (P1, pair))


def _real_hasher(H, np, h, p, P):
    if h == "HasherV2":
        x = H.HasherV2(p, P, progress=0, progress_bar=np)
        return bytes(x.root), bytes(x.piece_layer), None, None
    if h == "HasherHybrid":
        x = H.HasherHybrid(p, P, progress=0, progress_bar=np)
        return bytes(x.root), bytes(x.piece_layer), b"".join(bytes(i) for i in x.pieces), x.padding_file
    hyb = h.endswith(".hybrid")
    x = H.FileHasher(p, P, progress=0, hybrid=hyb, progress_bar=np)
    layers, pieces = b"", b""
    for r in x:
        if hyb:
            layers += bytes(r[0])
            pieces += bytes(r[1])
        else:
            layers += bytes(r)
    return bytes(x.root), layers, pieces if hyb else None, x.padding_file


def replay(params, model, notes, workdir, seed):
    P = params.get("P")
    mods = cr.real_torrentfile()
    if "pair" not in params:
        s = int(model["s0"])
        p = os.path.join(workdir, "data", "f")
        refconc.write_file(p, refconc.content(("f", 0), s, seed))
        H = mods["torrentfile.hasher"]
        np = mods["torrentfile.mixins"].ProgMixin.NoProg()
        res = {h: _real_hasher(H, np, h, p, P) for h in c02.HASHERS}
        bad = []
        for h in c02.HASHERS[1:]:
            if res[h][0] != res["HasherV2"][0]:
                bad.append("C10.hashers.root")
            if res[h][1] != res["HasherV2"][1]:
                bad.append("C10.hashers.layer")
        if res["HasherHybrid"][2] != res["FileHasher.hybrid"][2]:
            bad.append("C10.hashers.v1-pieces")
        if res["HasherHybrid"][3] != res["FileHasher.hybrid"][3]:
            bad.append("C10.hashers.padding")
        return bad
    if "row" in params:
        from harness import matrix
        ms = []
        for k, which in enumerate(params["pair"]):
            r = dict(params["row"])
            if which not in ("1", "2a", "3a") and r["route"] == "cli":
                r["route"] = "path"
            meta, data, Pn = matrix.replay(which, r, model, os.path.join(workdir, "run%d" % k), seed)
            if isinstance(meta, BaseException):
                return ["C10.matrix.no-exception: %s: %s" % (type(meta).__name__, meta)]
            m = dict(meta)
            m.pop("creation date", None)
            ms.append(cr.norm_real(m))
        return [] if ms[0] == ms[1] else ["C10.matrix.info"]
    if "P1" in params:
        import io
        import contextlib
        one, name = os.path.join(workdir, "data", "one"), os.path.join(workdir, "data", "name")
        refconc.write_file(one, refconc.content(("f", 0), int(model["s0"]), seed))
        refconc.write_file(name, refconc.content(("f", 1), int(model["s1"]), seed))
        T = mods["torrentfile.torrent"]
        ms = []
        with contextlib.redirect_stdout(io.StringIO()):
            for which in params["pair"]:
                cls, mv = cr.CLS[which]
                kw = dict(path=one, piece_length=params["P1"], progress=0)
                if mv:
                    kw["meta_version"] = mv
                getattr(T, cls)(**kw)
            for which in params["pair"]:
                cls, mv = cr.CLS[which]
                kw = dict(path=name, piece_length=params["P2"], progress=0)
                if mv:
                    kw["meta_version"] = mv
                m = dict(getattr(T, cls)(**kw).meta)
                m.pop("creation date", None)
                ms.append(cr.norm_real(m))
        return [] if ms[0] == ms[1] else ["C10.creators.seq.meta"]
    shape = params["shape"]
    sizes = cr.concrete_sizes(shape, model)
    root, data = cr.materialize(workdir, shape, sizes, seed)
    if params.get("emptydirs"):
        for d in EMPTY_DIRS:
            os.makedirs(os.path.join(workdir, "data", d), exist_ok=True)
    old = os.getcwd()
    if params.get("spelling"):
        root, cwd = cr.spelled_real(workdir, params["spelling"])
        os.chdir(cwd)
    ms = []
    try:
        for which in params["pair"]:
            try:
                m = dict(cr.real_create(which, path=root, piece_length=P).meta)
            except Exception as ex:  # noqa: BLE001
                return ["C10.no-exception: %s" % ex]
            m.pop("creation date", None)
            ms.append(cr.norm_real(m))
    finally:
        os.chdir(old)
    return [] if ms[0] == ms[1] else ["C10.creators.meta"]


def canaries(tier):
    return [
        ("HasherHybrid: v1 piece not zero-extended", {"hasher": [(
            "                piece.update(bytes(plength))\n            self.pieces.append(piece.digest())  # nosec", "            self.pieces.append(piece.digest())  # nosec")]},
         ["hashers.P32768", "hybrid.flat2*"]),
        ("TorrentFileV2: layer recorded for size >= P", {"torrent": [(
            "            if size > self.piece_length:\n                self.piece_layers[fhash.root] = fhash.piece_layer",
            "            if size >= self.piece_length:\n                self.piece_layers[fhash.root] = fhash.piece_layer")]},
         ["v2.*"]),
    ]


if __name__ == "__main__":
    from harness import common
    raise SystemExit(common.main("harness.c10"))
