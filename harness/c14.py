"""C14: rebuild only adds verified copies; it never damages sources or existing files."""
import os
import posixpath

from symx.core import tb, conj
from symx.abuf import ABuf
from symx.loader import World, BenTok
from symx.afs import AFS

from harness import rebuildw as rw
from harness import recheck as rk
from harness import creators as cr
from harness.creators import SHAPES
import refconc

PROPERTY = "C14"
MODULES = rw.MODULES
ASSUMPTIONS = [
    "judged on the abstract filesystem's mutation log and final state: every mutating call the rebuild makes is logged "
    "(closed world: no other way to touch files)",
    "A-hash + A-generic: a decoy's bytes never verify against the metafile",
    "destination disjoint from the search directories; pre-populated with a correct file, a wrong file of full length, a "
    "shorter file or an unrelated file (configurations); sizes and listing orders are solver variables",
    "copy = whole-file copy (shutil.copy on the AFS)",
]
WITNESSES = ["destination holds a wrong file of full length", "destination holds a shorter file", "decoy present"]
PRE = ["empty", "correct", "wrong-full", "shorter", "unrelated"]


def BOUNDS(tier):
    q = tier == "quick"
    return {"versions": "v1, v2, hybrid", "shapes": "single, flat2, samedir2" + ("" if q else ", nested3"), "sizes": "each in [0, 2P], P = 16 KiB",
            "layouts": "flat, two" + ("" if q else ", deep, mirror"), "decoys": "none / before / after", "destination": PRE,
            "repeats": "a second rebuild into the same destination", "outside": "as C13"}


def jobs(tier):
    q = tier == "quick"
    out = []
    for version in (1, 2, 3):
        for shape in ("single", "flat2", "samedir2") + (() if q else ("nested3",)):
            for pre in PRE:
                for decoy in ("none", "before"):
                    if q and decoy == "before" and pre not in ("empty", "wrong-full"):
                        continue
                    layout = "flat" if (shape == "single" or pre in ("correct", "shorter")) else "two"
                    out.append(("v%d.%s.%s.pre-%s.decoy-%s" % (version, shape, layout, pre, decoy), "job",
                                dict(version=version, shape=shape, P=16384, K=2, layout=layout, decoy=decoy, pre=pre)))
    for version in (1, 2, 3):
        for damage in (("flip", "missing") if version == 1 else ("missing",)):
            for decoy in ("before", "after"):
                out.append(("v%d.flat2.flat.pre-empty.decoy-%s.last-file-%s" % (version, decoy, damage), "job",
                            dict(version=version, shape="flat2", P=16384, K=2, layout="flat", decoy=decoy, pre="empty", damage=damage)))
    for version in (1, 2, 3):
        out.append(("v%d.flat2.flat.pre-empty.decoy-before.first-file-missing" % version, "job",
                    dict(version=version, shape="flat2", P=16384, K=2, layout="flat", decoy="before", pre="empty", damage="first-missing")))
    for version in (1, 2):
        out.append(("v%d.hostile-name-into-search-dir" % version, "job_hostile", dict(version=version)))
    for version in (1, 2, 3):
        out.append(("v%d.two-releases-same-destination" % version, "job_two_releases", dict(version=version, releases=2)))
        out.append(("v%d.source-replaced-by-decoy-then-rebuild-again" % version, "job_replaced", dict(version=version, replaced=True)))
    for version in (1, 2, 3):
        # entries named like the torrent itself; two files with one base name in different directories (one piece can
        # hold both)
        for shape, layout in (("selfname", "flat"), ("selfdir", "flat"), ("samename2", "two"), ("samename2", "mirror")):
            out.append(("v%d.%s.%s.pre-empty.decoy-none" % (version, shape, layout), "job",
                        dict(version=version, shape=shape, P=16384, K=1, layout=layout, decoy="none", pre="empty")))
    for version in (1, 2, 3):       # a directory torrent holding exactly one file
        out.append(("v%d.dir1.flat.pre-empty.decoy-none" % version, "job", dict(version=version, shape="dir1", P=16384, K=2, layout="flat", decoy="none", pre="empty")))
    out.extend(rw.matrix_rows(tier, "C14"))
    return out


def job_replaced(E, version, replaced=True, _mutants=None):
    """A first rebuild sees the genuine file at a search path; the file is then replaced in place by a same-sized file
    with other bytes, and rebuild runs again (same process, fresh destination): the impostor is not placed."""
    P = 16384
    fs = AFS(order="reversed")
    sizes = {"name/a": E.int("s0", 1, 2 * P), "name/b": E.int("s1", 1, P)}
    E.note("shape", "flat2")
    fs.add("/src/a", ("f", 0), sizes["name/a"])
    fs.add("/src/b", ("f", 1), sizes["name/b"])
    meta = rk.ref_meta(E, version, "flat2", sizes, P, False, True)
    fs.add_token("/t/m.torrent", BenTok(meta))
    fs.mkdirs("/dest")
    fs.mkdirs("/dest2")
    w = World(fs, mutants=_mutants)
    ok, _ = rw.run_rebuild(E, w, ["/t/m.torrent"], ["/src"], "/dest", "C14.replaced.first")
    if not ok:
        return
    fs.add("/src/a", ("decoy", 0), sizes["name/a"])
    ok, _ = rw.run_rebuild(E, w, ["/t/m.torrent"], ["/src"], "/dest2", "C14.replaced")
    if not ok:
        return
    node = fs.files.get("/dest2/name/a")
    E.check(node is None or not _is_decoy(node.content), "C14.replaced.placed-file-verifies",
            "after the search file was replaced by an impostor of the same size, the second rebuild placed the impostor")
    for k in WITNESSES:
        E.witnesses.setdefault(k, True)


def job_two_releases(E, version, releases=2, _mutants=None):
    """Repeated rebuilds into one destination with two metafiles that assign the same path: release 1 has name/a of
    n bytes, release 2 a longer name/a.  Both genuine files are in the search tree; it must stay as it was."""
    P = 16384
    fs = AFS(order="reversed")
    n1 = E.int("n1", 1, 2 * P)
    n2 = E.int("n2", 2, 3 * P)
    sb = E.int("sb", 1, P)
    E.assume(n2 > n1)
    E.note("shape", "flat2")
    fs.add("/src/rel1/a", ("f", 0), n1)
    fs.add("/src/rel2/a", ("g", 0), n2)
    fs.add("/src/b", ("f", 1), sb)
    m1 = rk.ref_meta(E, version, "flat2", {"name/a": n1, "name/b": sb}, P, False, True)
    save = cr.fid_of
    try:
        cr.fid_of = lambda shape, rel, names=None: ("g", 0) if rel.endswith("/a") else ("f", 1)
        m2 = rk.ref_meta(E, version, "flat2", {"name/a": n2, "name/b": sb}, P, False, True)
    finally:
        cr.fid_of = save
    fs.add_token("/t/one.torrent", BenTok(m1))
    fs.add_token("/t/two.torrent", BenTok(m2))
    fs.mkdirs("/dest")
    snap = fs.snapshot()
    w = World(fs, mutants=_mutants)
    for mf in ("/t/one.torrent", "/t/two.torrent"):
        ok, _ = rw.run_rebuild(E, w, [mf], ["/src"], "/dest", "C14.releases")
        if not ok:
            return
    changed = [d for d in fs.diff(snap) if d[1].startswith("/src/") or d[1].startswith("/t/")]
    E.check(not changed, "C14.releases.sources-untouched", "after rebuilding two releases into one destination the search tree differs: %r" % (changed[:4],))
    for k in WITNESSES:
        E.witnesses.setdefault(k, True)


def job_hostile(E, version, _mutants=None):
    """A hostile metafile whose name points back into a search directory whose
    name extends the destination's: nothing under the search directories may change."""
    from symx.afs import AFS
    from symx.loader import BenTok
    from symx import refs
    P = 16384
    fs = AFS(order="reversed")
    s0 = E.int("s0", 1, 2 * P)
    t0 = E.int("pre_len", 0, None)
    E.assume(t0 < s0)
    E.note("shape", "hostile")
    fs.add("/w/dest-src/new/f.bin", ("f", 0), s0)                 # the genuine payload
    fs.add("/w/dest-src/keep/f.bin", ("victim", 0), t0)           # an unrelated, shorter file in the search tree
    fs.mkdirs("/w/dest")
    c0 = ABuf.file(("f", 0), s0)
    info = {"name": "../dest-src", "piece length": P}
    if version == 1:
        info["files"] = [{"length": s0, "path": ["keep", "f.bin"]}]
        info["pieces"] = refs.v1_pieces(c0, P)
        meta = {"info": info}
    else:
        root, layer, _ = refs.v2_layerwise(c0, P)
        info["meta version"] = 2
        info["file tree"] = {"keep": {"f.bin": {"": {"length": s0, "pieces root": root}}}}
        meta = {"info": info, "piece layers": ({root: layer} if tb(s0 > P) else {})}
    fs.add_token("/w/t/m.torrent", BenTok(meta))
    snap = fs.snapshot()
    w = World(fs, mutants=_mutants)
    try:
        w.mod("rebuild").Assembler(["/w/t/m.torrent"], ["/w/dest-src"], "/w/dest").assemble_torrents()
    except Exception as ex:  # noqa: BLE001
        E.note("raised", "%s" % type(ex).__name__)
    changed = [d for d in fs.diff(snap) if d[1].startswith("/w/dest-src") or d[1].startswith("/w/t")]
    E.check(not changed, "C14.sources-untouched", "search directories / metafiles changed: %r" % (changed[:4],))
    for k in WITNESSES:
        E.witnesses.setdefault(k, True)


def job(E, version, shape, P, K, layout, decoy, pre, damage=None, _mutants=None):
    order = "reversed" if decoy == "none" else ("sorted" if damage else "symbolic")
    fs, sizes, meta, expected = rw.build_world(E, version, shape, P, K, layout, decoy, order=order,
                                               lo=1 if shape == "single" else 0, damage=damage)
    rels = SHAPES[shape]
    first = [d for d, (r, c) in expected.items() if r == rels[0]][0]
    r0 = rels[0]
    protected = {}
    if pre == "correct":
        fs.add_content(first, ABuf(expected[first][1]))
        protected[first] = ABuf(expected[first][1])
    elif pre == "wrong-full":
        c = ABuf.file(("predecoy", 0), sizes[r0])
        fs.add_content(first, c)
        protected[first] = ABuf(c)
        E.witnesses["destination holds a wrong file of full length"] = True
    elif pre == "shorter":
        t = E.int("pre_len", 0, None)
        E.assume(t < sizes[r0])
        fs.add_content(first, ABuf.file(("predecoy", 1), t))
        E.witnesses["destination holds a shorter file"] = True
    elif pre == "unrelated":
        fs.add("/dest/name-other/keep.bin", ("keep", 0), 77)
        fs.add("/dest/zzz.bin", ("keep", 1), 5)
    if decoy != "none":
        E.witnesses["decoy present"] = True
    snap = fs.snapshot()
    w = World(fs, mutants=_mutants)
    ok, count = rw.run_rebuild(E, w, ["/t/m.torrent"], rw.SEARCH[layout], "/dest", "C14")
    if not ok:
        return
    judge(E, fs, snap, sizes, expected, protected, layout, shape, "C14")
    # a second rebuild into the same destination changes nothing
    snap2 = fs.snapshot()
    nlog = len(fs.log)
    ok, count2 = rw.run_rebuild(E, World(fs, mutants=_mutants), ["/t/m.torrent"], rw.SEARCH[layout], "/dest", "C14.second")
    if ok:
        E.check(not fs.diff(snap2), "C14.second-rebuild-changes-nothing", "%r" % (fs.diff(snap2)[:4],))
    for k in WITNESSES:
        E.witnesses.setdefault(k, True)


def _is_decoy(content):
    c = content.canon()
    return bool(c) and all(isinstance(seg[1], tuple) and seg[1] and seg[1][0] in ("decoy", "predecoy") for seg in c if seg[0] == "F")


def judge(E, fs, snap, sizes, expected, protected, layout, shape, tag):
    roots = [posixpath.normpath(r) for r in rw.SEARCH[layout]] + ["/t"]
    search_roots = [posixpath.normpath(r) for r in rw.SEARCH[layout]]

    def under(p, roots_):
        return any(p == r or p.startswith(r + "/") for r in roots_)
    # 1. sources and metafiles untouched
    changed = [d for d in fs.diff(snap) if under(d[1], roots)]
    E.check(not changed, tag + ".sources-untouched", "search directories / metafiles changed: %r" % (changed[:4],))
    # 2. protected destination files (already of full recorded length) untouched, unrelated files untouched
    for p, c in protected.items():
        node = fs.files.get(p)
        E.check(node is not None and node.content == c, tag + ".full-length-destination-untouched", "%s was altered" % p)
    for p, c in snap[0].items():
        if under(p, ["/dest"]) and p not in expected:
            node = fs.files.get(p)
            E.check(node is not None and node.content == c, tag + ".unrelated-destination-untouched", "%s was altered" % p)
    # 3. every mutating operation targets the destination (how the bytes get there - copy, chunked write, temporary
    #    file and rename - is not judged), and every file that appears in the destination sits at a path the metafile
    #    assigns and has the recorded length
    for entry in fs.log:
        targets = [entry[-1]] if entry[0] in ("copy", "rename", "link") else [entry[1]]
        for t in targets:
            if isinstance(t, str) and t.startswith("/"):
                E.check(under(t, ["/dest"]), tag + ".mutations-only-in-destination", "%r" % (entry,))
    for p, node in fs.files.items():
        if under(p, ["/dest"]) and p not in snap[0]:
            if E.check(p in expected, tag + ".placed-at-assigned-path", "%s appeared, which the metafile does not assign" % p):
                rel = expected[p][0]
                E.check(node.content.size() == sizes[rel], tag + ".placed-with-recorded-length", "%s has %r bytes, recorded %r" % (p, node.content.size(), sizes[rel]))
    # 4. nothing placed is a decoy / a patchwork: every file at an assigned path that was created or changed holds
    #    a byte-identical copy of a search-directory file with the recorded name and length
    import posixpath as _pp
    for d, (rel, content) in expected.items():
        node = fs.files.get(d)
        if node is None or not tb(sizes[rel] > 0):
            continue
        if d not in snap[0] or not (node.content == snap[0][d]):
            sources = [c for p, c in snap[0].items() if under(p, search_roots) and _pp.basename(p) == rel.split("/")[-1]]
            E.check(any(node.content == c for c in sources), tag + ".written-file-is-identical-copy",
                    "%s is not a byte-identical copy of a search-directory file of that name" % d)
            E.check(not _is_decoy(node.content), tag + ".placed-file-verifies", "%s holds a file none of whose bytes verify against the metafile" % d)


def validate(tier, workdir, seed):
    from harness import c13
    return c13.validate(tier, workdir, seed + 1)


def _replay_hostile(params, model, workdir, seed):
    import io
    import contextlib
    P = 16384
    s0, t0 = int(model["s0"]), int(model.get("pre_len", 0))
    d0 = refconc.content(("f", 0), s0, seed)
    w = os.path.join(workdir, "w")
    refconc.write_file(os.path.join(w, "dest-src", "new", "f.bin"), d0)
    refconc.write_file(os.path.join(w, "dest-src", "keep", "f.bin"), refconc.content(("victim", 0), t0, seed))
    os.makedirs(os.path.join(w, "dest"))
    meta = refconc.build_meta([(["keep", "f.bin"], d0)], P, params["version"], name="../dest-src")
    refconc.write_file(os.path.join(w, "t", "m.torrent"), refconc.bencode(meta))
    before = refconc.snapshot(workdir)
    mods = cr.real_torrentfile()
    try:
        with contextlib.redirect_stdout(io.StringIO()):
            mods["torrentfile.rebuild"].Assembler([os.path.join(w, "t", "m.torrent")], [os.path.join(w, "dest-src")], os.path.join(w, "dest")).assemble_torrents()
    except Exception:  # noqa: BLE001
        pass
    after = refconc.snapshot(workdir)
    return ["C14.sources-untouched:%s" % k for k in set(before) | set(after)
            if before.get(k) != after.get(k) and not k.startswith("w/dest/") and k != "w/dest"]


def _replay_releases(params, model, workdir, seed):
    import io
    import contextlib
    P = 16384
    n1, n2, sb = int(model["n1"]), int(model["n2"]), int(model["sb"])
    a1, a2, b = refconc.content(("f", 0), n1, seed), refconc.content(("g", 0), n2, seed), refconc.content(("f", 1), sb, seed)
    refconc.write_file(workdir + "/src/rel1/a", a1)
    refconc.write_file(workdir + "/src/rel2/a", a2)
    refconc.write_file(workdir + "/src/b", b)
    for nm, a in (("one", a1), ("two", a2)):
        refconc.write_file(workdir + "/t/%s.torrent" % nm, refconc.bencode(refconc.build_meta([(["a"], a), (["b"], b)], P, params["version"])))
    os.makedirs(workdir + "/dest")
    before = refconc.snapshot(workdir)
    mods = cr.real_torrentfile()
    real_listdir = os.listdir
    os.listdir = lambda p=".": sorted(real_listdir(p), reverse=True)
    try:
        with contextlib.redirect_stdout(io.StringIO()):
            for nm in ("one", "two"):
                mods["torrentfile.rebuild"].Assembler([workdir + "/t/%s.torrent" % nm], [workdir + "/src"], workdir + "/dest").assemble_torrents()
    except Exception as ex:  # noqa: BLE001
        return ["C14.releases.no-exception: %s: %s" % (type(ex).__name__, ex)]
    finally:
        os.listdir = real_listdir
    after = refconc.snapshot(workdir)
    return ["C14.releases.sources-untouched:%s" % k for k in before if not k.startswith("dest") and before[k] != after.get(k)]


def replay(params, model, notes, workdir, seed):
    from harness import c13
    if "releases" in params:
        return _replay_releases(params, model, workdir, seed)
    if params.get("replaced"):
        import io
        import contextlib
        P = 16384
        s0, s1 = int(model["s0"]), int(model["s1"])
        a, b = refconc.content(("f", 0), s0, seed), refconc.content(("f", 1), s1, seed)
        refconc.write_file(workdir + "/src/a", a)
        refconc.write_file(workdir + "/src/b", b)
        refconc.write_file(workdir + "/t/m.torrent", refconc.bencode(refconc.build_meta([(["a"], a), (["b"], b)], P, params["version"])))
        os.makedirs(workdir + "/dest")
        os.makedirs(workdir + "/dest2")
        mods = cr.real_torrentfile()
        fake = refconc.content(("decoy", 0), s0, seed)
        try:
            with contextlib.redirect_stdout(io.StringIO()):
                mods["torrentfile.rebuild"].Assembler([workdir + "/t/m.torrent"], [workdir + "/src"], workdir + "/dest").assemble_torrents()
                refconc.write_file(workdir + "/src/a", fake)
                mods["torrentfile.rebuild"].Assembler([workdir + "/t/m.torrent"], [workdir + "/src"], workdir + "/dest2").assemble_torrents()
        except Exception as ex:  # noqa: BLE001
            return ["C14.replaced.no-exception: %s: %s" % (type(ex).__name__, ex)]
        p_ = workdir + "/dest2/name/a"
        return ["C14.replaced.placed-file-verifies"] if os.path.isfile(p_) and open(p_, "rb").read() == fake else []
    if "shape" not in params:
        return _replay_hostile(params, model, workdir, seed)
    sizes, data, expected = rw.conc_world(params, model, workdir, seed)
    shape, layout, pre = params["shape"], params.get("layout", "flat"), params["pre"]
    rels = SHAPES[shape]
    single = shape == "single"
    first = "/dest/" + ("name" if single else "name/" + rels[0].split("/", 1)[1])
    protected = {}
    if pre == "correct":
        refconc.write_file(workdir + first, data[rels[0]])
        protected[first] = data[rels[0]]
    elif pre == "wrong-full":
        b = refconc.content(("predecoy", 0), sizes[rels[0]], seed)
        refconc.write_file(workdir + first, b)
        protected[first] = b
    elif pre == "shorter":
        refconc.write_file(workdir + first, refconc.content(("predecoy", 1), int(model.get("pre_len", 0)), seed))
    elif pre == "unrelated":
        refconc.write_file(workdir + "/dest/name-other/keep.bin", b"k" * 77)
        refconc.write_file(workdir + "/dest/zzz.bin", b"z" * 5)
    before = refconc.snapshot(workdir)
    import itertools
    from symx.afs import listing_orders
    real_listdir = os.listdir

    def listdir(p="."):
        names = sorted(real_listdir(p))
        ap = os.path.abspath(p)
        mp = ap[len(workdir):] if ap.startswith(workdir) else ap
        for k, v in model.items():
            if k.startswith("perm:%s:" % mp) and len(names) >= 2:
                perms = listing_orders(len(names))
                if int(v) < len(perms):
                    return [names[i] for i in perms[int(v)]]
        return names if (params.get("damage") and params.get("decoy", "none") != "none") else names[::-1]
    os.listdir = listdir
    try:
        try:
            rw.conc_rebuild(workdir, layout)
            mid = refconc.snapshot(workdir)
            rw.conc_rebuild(workdir, layout)
        except Exception as ex:  # noqa: BLE001
            return ["C14.no-exception: %s: %s" % (type(ex).__name__, ex)]
    finally:
        os.listdir = real_listdir
    after = refconc.snapshot(workdir)
    bad = []
    if after != mid:
        bad.append("C14.second-rebuild-changes-nothing")
    for k in before:
        if not k.startswith("dest") and before[k] != mid.get(k):
            bad.append("C14.sources-untouched:%s" % k)
    for k in mid:
        if not k.startswith("dest") and k not in before:
            bad.append("C14.sources-untouched:+%s" % k)
    for p, b in protected.items():
        if mid.get(p.lstrip("/")) != ("f", b):
            bad.append("C14.full-length-destination-untouched")
    for k, v in before.items():
        if k.startswith("dest") and ("/" + k) not in expected and mid.get(k) != v:
            bad.append("C14.unrelated-destination-untouched:%s" % k)
    srcs = [v[1] for k, v in before.items() if not k.startswith("dest") and not k.startswith("t") and v[0] == "f"]
    for k, v in mid.items():
        if k.startswith("dest") and v[0] == "f" and (k not in before or before[k] != v):
            if ("/" + k) not in expected:
                bad.append("C14.copy-to-assigned-path:%s" % k)
            elif expected["/" + k] and v[1] not in srcs:
                bad.append("C14.written-file-is-identical-copy:%s" % k)
            elif expected["/" + k] and v[1] != expected["/" + k] and params.get("damage") is None:
                bad.append("C14.placed-file-verifies:%s" % k)
            elif expected["/" + k] and v[1] == refconc.content(("decoy", 0), len(v[1]), seed):
                bad.append("C14.placed-file-verifies:%s" % k)
    return bad


def canaries(tier):
    return [
        ("copypath: an existing destination of equal size is overwritten", {"utils": [(
            "                                      <= os.path.getsize(dest)):", "                                      < os.path.getsize(dest)):")]},
         ["v1.flat2.*.pre-wrong-full.*", "v2.single.*.pre-wrong-full.*"]),
        ("rebuild: candidate copied as soon as name and size match (hash checked afterwards)", {"rebuild": [(
            "            partial = pathnode.get_part(loc)\n", "            partial = pathnode.get_part(loc)\n            copypath(loc, os.path.join(self.dest, pathnode.full))\n")]},
         ["v1.flat2.*.decoy-before", "v1.single.*.decoy-before"]),
        ("copypath: source moved instead of copied", {"utils": [("        shutil.copy(source, dest)", "        shutil.move(source, dest)")]},
         ["v1.flat2.*pre-empty.decoy-none", "v2.flat2.*pre-empty.decoy-none"]),
    ]


if __name__ == "__main__":
    from harness import common
    raise SystemExit(common.main("harness.c14"))
