"""Shared pieces for the creator properties (C01, C02, C03, C06, C08, C10, C15)."""
import os
import sys

from symx.core import tb, Unsupported
from symx.abuf import ABuf, concretize_buf
from symx.afs import AFS
from symx.loader import World
from symx import refs

import refconc

BLOCK = 16384

# content trees: relative paths below /data ; first component is the torrent name
SHAPES = {
    "single": ["name"],
    "flat2": ["name/a", "name/b"],
    "flat3": ["name/b", "name/a", "name/c"],
    "nested3": ["name/a", "name/d/b", "name/d/e/c"],
    "order2": ["name/a.b", "name/a/b"],       # 'a.b' sorts before 'a/b' as a path, after 'a' as a name
    "nested4": ["name/x/a", "name/x/b", "name/y/a", "name/z"],
    "deep2": ["name/p/q/r/a", "name/p/b"],
    "samedir2": ["name/d/a", "name/d/b"],
    "samename2": ["name/d1/t.dat", "name/d2/t.dat"],   # two different files with the same base name          # two files in one sub-directory
    "hidden2": ["name/.hidden", "name/.d/x"],
    "grown3": ["name/a", "name/d/b", "name/d/zz-new"],   # third file appears between two creates (C01 history job)
    "ungrouped3": ["name/d/a", "name/x", "name/d/b"],   # a v1 file list that is not grouped by directory      # dot files and dot directories
    "dir1": ["name/a"],                             # a directory holding exactly one file
    "case2": ["name/README", "name/readme"],
    "mixedcase2": ["name/README", "name/alpha"],
    "around3": ["name/a", "name/d/b", "name/z"],     # a sub-directory with files sorting before and after it   # byte order and case-folded order differ       # names that collide when case is folded
    "selfname": ["name/name", "name/z"],          # a file called like the torrent inside the payload root
    "selfdir": ["name/name/x", "name/y"],          # a directory called like the torrent inside the payload root
    "suffixdir": ["name/username/x", "name/rename/name/z", "name/y"],   # directory names that end with the root's name
}

# ---- naming schemes: the same structural tree under adversarially chosen names --------------------------------
# (names are configurations, not solver variables; the schemes below are the name relations that matter to sorting,
#  path joining, globbing, case folding and key look-ups)

def _rename(rels, mapping):
    out = []
    for r in rels:
        comps = r.split("/")
        out.append("/".join([comps[0]] + [mapping.get(c, c) for c in comps[1:]]))
    return out


SCHEMES = {
    "special": {"a": "[a] *?{x}.bin", "b": "é 中 name.dat", "c": "c'\"c;&.x", "d": "d [1] (x)", "e": "e e", "z": "~z#%41"},
    "hidden": {"a": ".a", "d": ".d", "b": ".b"},
    "case": {"a": "README", "b": "readme", "c": "ReadMe", "d": "DIR", "z": "Z"},
    "prefix": {"a": "d.a", "b": "d-b", "c": "d c", "z": "d"},           # names that extend a sibling directory's name
    "fields": {"a": "comment", "b": "source", "c": "private", "d": "announce", "e": "url-list", "z": "info"},
    "selfnamed": {"a": "name", "d": "name", "b": "name.torrent", "z": ".torrent"},
    "padlike": {"a": ".pad", "b": "0", "d": ".pad", "c": "16384"},
    "backslash": {"a": "a\\b", "b": "\\b", "d": "d\\e", "c": "c\\"},      # legal POSIX names containing the other platform's separator
    "percent": {"a": "100% done", "b": "%s", "d": "My%20Dir", "c": "%(x)s", "z": "%"},
    "v2keys": {"a": "length", "b": "pieces root", "d": "attr", "c": "path", "e": "files", "z": "name"},   # names of metafile keys
    # not stable under Unicode normalisation, with siblings that sort between the decomposed and the composed spelling
    "decomposed": {"a": "e\u0301tude.bin", "b": "fugue.bin", "d": "cafe\u0301", "c": "\u212b.dat", "e": "z", "z": "\ufb01n"},
    "tilde": {"a": "~", "b": "~root", "d": "~", "c": "~x", "z": "~~"},
    "dotdot": {"a": "notes..txt", "b": "..b", "d": "part1..3", "c": "c..", "e": "...", "z": "z.."},      # legal names containing '..'
}


def _register_schemes():
    for shape in ("flat2", "nested3", "around3", "samedir2", "flat3"):
        for sch, mp in SCHEMES.items():
            rels = _rename(SHAPES[shape], mp)
            if len(set(rels)) == len(rels) and rels != SHAPES[shape]:
                # a name may not be both a file and a directory
                dirs = {"/".join(r.split("/")[:i]) for r in rels for i in range(1, len(r.split("/")))}
                if not (dirs & set(rels)):
                    SHAPES["%s~%s" % (shape, sch)] = rels


_register_schemes()


def scheme_shapes(base_shapes, tier, seed=None, per_run=2):
    """Shape names `<shape>~<scheme>` for the given structural shapes: all of them in the thorough tier, a
    seed-dependent rotation of `per_run` schemes per shape in the quick tier."""
    import os as _o
    seed = int(_o.environ.get("VERIF_SEED", "0") or 0) if seed is None else seed
    out = []
    for sh in base_shapes:
        names = sorted(k for k in SHAPES if k.startswith(sh + "~"))
        if tier == "thorough":
            out.extend(names)
        elif names:
            for i in range(per_run):
                out.append(names[(seed * per_run + i) % len(names)])
    return sorted(set(out))


# spellings of the content root /data/name: (path as given, working directory)
SPELLINGS = {
    "dot": (".", "/data/name"),
    "dotslash": ("./", "/data/name"),
    "updown": ("name/../name", "/data"),
    "sibling": ("../name", "/data/other"),
    "twice": ("../other/../name", "/data/other"),
    "dotname": ("./name", "/data"),
    "trailing": ("name/", "/data"),
    "relative": ("name", "/data"),
    "dslash": ("/data//name", "/cwd"),
    "absdot": ("/data/./name/.", "/cwd"),
}


def spelled(fs, spelling):
    """Prepare `fs` for a spelling of /data/name; returns the path string to hand to the creator."""
    path, cwd = SPELLINGS[spelling]
    fs.mkdirs(cwd)
    fs.mkdirs("/data/other")
    fs.cwd = cwd
    return path


def spelled_real(workdir, spelling):
    """Concrete side: returns (path string, directory to chdir into) below workdir."""
    path, cwd = SPELLINGS[spelling]
    real_cwd = os.path.join(workdir, cwd.lstrip("/"))
    os.makedirs(real_cwd, exist_ok=True)
    os.makedirs(os.path.join(workdir, "data", "other"), exist_ok=True)
    if path.startswith("/"):
        path = workdir + path
    return path, real_cwd


CLS = {"1": ("TorrentFile", None), "2a": ("TorrentAssembler", "2"), "3a": ("TorrentAssembler", "3"),
       "2c": ("TorrentFileV2", None), "3c": ("TorrentFileHybrid", None)}


def tree_order(rels):
    """Depth-first traversal with names sorted per directory (the v2 file tree
    order, which bencoding makes canonical)."""
    def rec(prefix, items):
        out = []
        heads = sorted({i[0] for i in items})
        for h in heads:
            sub = [i[1:] for i in items if i[0] == h]
            if any(len(s) == 0 for s in sub):
                out.append(prefix + [h])
            else:
                out.extend(rec(prefix + [h], sub))
        return out
    return ["/".join(p) for p in rec([], [r.split("/") for r in rels])]


def make_fs(E, shape, K, P, order="reversed", lo=0, base="/data", cwd="/cwd", names=None):
    rels = names or SHAPES[shape]
    fs = AFS(cwd=cwd, order=order)
    sizes = {}
    for i, r in enumerate(rels):
        s = E.int("s%d" % i, lo, K * P if isinstance(K, int) else None)
        sizes[r] = s
        fs.add(base + "/" + r, ("f", i), s)
    E.note("shape", shape)
    E.note("files", list(rels))
    return fs, sizes


def fid_of(shape, rel, names=None):
    return ("f", (names or SHAPES[shape]).index(rel))


def create(world, which, **kw):
    """Run one of torrentfile's creators inside `world`; returns the instance."""
    cls, mv = CLS[which]
    T = world.mod("torrent")
    if mv is not None:
        kw["meta_version"] = mv
    return getattr(T, cls)(**kw)


# ---------------------------------------------------------------------------
# concrete side: build the same tree on disk and run the unmodified package
# ---------------------------------------------------------------------------

def concrete_sizes(shape, model, names=None):
    rels = names or SHAPES[shape]
    return {r: int(model.get("s%d" % i, 0)) for i, r in enumerate(rels)}


def materialize(workdir, shape, sizes, seed, names=None):
    rels = names or SHAPES[shape]
    data = {}
    for i, r in enumerate(rels):
        b = refconc.content(("f", i), sizes[r], seed)
        data[r] = b
        refconc.write_file(os.path.join(workdir, "data", r), b)
    return os.path.join(workdir, "data", "name"), data


def real_torrentfile():
    """The unmodified package from /repo (fresh import state per call).  For
    canary runs VERIF_REAL_REPO points at a scratch copy with the mutant applied."""
    for k in [k for k in sys.modules if k == "torrentfile" or k.startswith("torrentfile.")]:
        del sys.modules[k]
    repo = os.environ.get("VERIF_REAL_REPO") or os.environ.get("VERIF_REPO", "/repo")
    sys.path[:] = [p for p in sys.path if "verif-mutant-" not in p]
    if sys.path[0] != repo:
        sys.path.insert(0, repo)
    import importlib
    importlib.invalidate_caches()
    import torrentfile  # noqa: F401
    assert os.path.dirname(os.path.dirname(os.path.abspath(torrentfile.__file__))) == os.path.abspath(repo), torrentfile.__file__
    import torrentfile.torrent
    import torrentfile.recheck
    import torrentfile.rebuild
    import torrentfile.edit
    import torrentfile.commands
    return sys.modules


def real_create(which, **kw):
    mods = real_torrentfile()
    T = mods["torrentfile.torrent"]
    cls, mv = CLS[which]
    if mv is not None:
        kw["meta_version"] = mv
    kw.setdefault("progress", 0)
    import io
    import contextlib
    with contextlib.redirect_stdout(io.StringIO()):
        return getattr(T, cls)(**kw)


# ---- concrete oracles -------------------------------------------------------

def payload_entries(info):
    return [f for f in info.get("files", []) if not (isinstance(f, dict) and f.get("attr") == "p")]


def conc_v1(info, root, data_by_rel, P, order_rels, aligned=False, hybrid=False):
    """Concrete C01/C15/C03(v1 side) oracle. data_by_rel keys are 'name/...'."""
    bad = []
    if info.get("piece length") != P:
        bad.append("piece-length")
    if len(order_rels) == 1 and order_rels[0] == "name":
        d = data_by_rel["name"]
        if info.get("length") != len(d):
            bad.append("single.length")
        if "files" in info:
            bad.append("single.files-present")
        if bytes(info.get("pieces", b"")) != refconc.v1_pieces(d, P):
            bad.append("single.pieces")
        return bad
    files = info.get("files")
    if not isinstance(files, list):
        return bad + ["files-missing"]
    pay = payload_entries(info)
    got = [("/".join(["name"] + list(f["path"])), f["length"]) for f in pay]
    want = [(r, len(data_by_rel[r])) for r in order_rels]
    if sorted(got) != sorted(want):
        bad.append("files.set")
    elif order_rels is not None and hybrid and got != want:
        bad.append("files.order")
    # stream exactly as listed
    stream = bytearray()
    prefix = 0
    for f in files:
        if f.get("attr") == "p":
            stream += bytes(f["length"])
        else:
            rel = "/".join(["name"] + list(f["path"]))
            if (aligned or hybrid) and prefix % P:
                bad.append("alignment:%s" % rel)
            if rel not in data_by_rel:
                bad.append("files.unknown:%s" % rel)
                continue
            d = data_by_rel[rel]
            if f["length"] != len(d):
                bad.append("files.length:%s" % rel)
            stream += d
        prefix += f["length"]
    if bytes(info.get("pieces", b"")) != refconc.v1_pieces(bytes(stream), P):
        bad.append("pieces")
    return bad


def conc_v2(meta, data_by_rel, P, single):
    bad = []
    info = meta["info"]
    if info.get("meta version") != 2:
        bad.append("meta-version")
    if info.get("piece length") != P:
        bad.append("piece-length")
    tree = info.get("file tree")
    leaves = {}

    def walk(t, pre):
        for k, v in t.items():
            if isinstance(v, dict) and "" in v and set(v) == {""}:
                leaves["/".join(pre + [k])] = v[""]
            elif isinstance(v, dict):
                walk(v, pre + [k])
            else:
                bad.append("tree.malformed")
    if not isinstance(tree, dict):
        return bad + ["tree-missing"]
    walk(tree, [] if single else ["name"])
    if set(leaves) != set(data_by_rel):
        bad.append("tree.paths")
    layers = meta.get("piece layers")
    if not isinstance(layers, dict):
        return bad + ["layers-missing"]
    want_layers = {}
    for rel, d in data_by_rel.items():
        leaf = leaves.get(rel)
        if leaf is None:
            continue
        if leaf.get("length") != len(d):
            bad.append("tree.length:%s" % rel)
        root, layer = refconc.v2_file(d, P)
        if root is None:
            if "pieces root" in leaf:
                bad.append("root.empty-has-root:%s" % rel)
        elif bytes(leaf.get("pieces root", b"")) != root:
            bad.append("root:%s" % rel)
        if layer is not None:
            want_layers[root] = layer
    got_layers = {bytes(k) if not isinstance(k, str) else k.encode(): bytes(v) for k, v in layers.items()}
    if set(got_layers) != set(want_layers):
        bad.append("layers.keys")
    else:
        for k in want_layers:
            if got_layers[k] != want_layers[k]:
                bad.append("layers.value")
    return bad


def canon_meta(meta, files):
    """Evaluate an abstract meta dict against real bytes (model validation)."""
    def ev(x):
        if isinstance(x, ABuf):
            return concretize_buf(x, files)
        if isinstance(x, dict):
            return {ev(k): ev(v) for k, v in x.items()}
        if isinstance(x, (list, tuple)):
            return [ev(v) for v in x]
        if isinstance(x, (bytes, bytearray)):
            return bytes(x)
        if isinstance(x, str) and hasattr(x, "sym"):
            return str(int(x.sym))
        return x
    return ev(meta)


def norm_real(meta):
    def ev(x):
        if isinstance(x, dict):
            return {(bytes(k) if isinstance(k, (bytes, bytearray)) else k): ev(v) for k, v in x.items()}
        if isinstance(x, (list, tuple)):
            return [ev(v) for v in x]
        if isinstance(x, (bytes, bytearray)):
            return bytes(x)
        return x
    return ev(meta)


class Pinned:
    """Engine stand-in that pins every symbolic input to a concrete value
    (model validation: the model must agree with the real package)."""

    def __init__(self, values):
        self.values = values
        self.inputs, self.notes, self.failed = {}, {}, []
        self.witnesses = {}

    def int(self, name, lo=None, hi=None):
        v = int(self.values[name])
        self.inputs[name] = v
        return v

    def choice(self, name, n):
        v = int(self.values.get(name, 0))
        self.inputs[name] = v
        return v

    def note(self, k, v):
        self.notes[k] = v

    def assume(self, c):
        if not c:
            raise AssertionError("pinned values violate an assumption")

    def check(self, prop, oblig, msg=""):
        if not prop:
            self.failed.append(oblig)
        return bool(prop)

    def fail(self, oblig, msg=""):
        self.failed.append(oblig)

    def witness(self, name, c=True):
        pass

    def feasible(self, c):
        return bool(c)
