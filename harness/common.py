"""Job runner shared by all property harnesses.

A harness module provides:
  PROPERTY, MODULES, ASSUMPTIONS, BOUNDS(tier) -> dict
  jobs(tier) -> [ (label, func_name, params) ]       (symbolic jobs)
  replay(params, model, notes, workdir, seed) -> [failing obligation strings]
  validate(tier, workdir, seed) -> (runs, [error strings])   (optional)
  canaries(tier) -> [ (label, mutants, [job labels]) ]        (optional)
  extra(tier, workdir, seed) -> dict with optional keys
        'jobs' (list of result dicts in the job format), 'notes'  (optional)
"""
import fnmatch
import importlib
import json
import multiprocessing as mp
import os
import shutil
import signal
import sys
import tempfile
import time
import traceback

ROOT = os.path.dirname(os.path.dirname(os.path.abspath(__file__)))
sys.path.insert(0, ROOT)

from symx import core  # noqa: E402
from symx.core import Engine, Budget  # noqa: E402
from symx import loader  # noqa: E402

EXIT_OK, EXIT_VIOLATION, EXIT_INCONCLUSIVE = 0, 1, 2


def load_known(prop):
    path = os.path.join(ROOT, "known_findings.json")
    if not os.path.exists(path):
        return []
    with open(path) as f:
        data = json.load(f)
    return [k for k in data.get("findings", []) if k.get("property") == prop and k.get("status") == "open"]


def _region_fn(expr):
    code = compile(expr, "<region>", "eval")

    def fn(I, N):
        env = {"I": I, "N": N, "conj": core.conj, "disj": core.disj, "neg": core.neg, "implies": core.implies}
        return eval(code, env)
    return fn


def regions_for(known, label):
    out = []
    for k in known:
        if not fnmatch.fnmatch(label, k.get("jobs", "*")):
            continue
        out.append((k["id"], k.get("obligation", "*"), _region_fn(k["region"])))
    return out


class _Alarm(Exception):
    pass


def _run_job(args):
    modname, label, func, params, budget, known, mutants = args
    t0 = time.time()
    res = {"label": label, "func": func, "params": params, "failures": [], "known": [], "unsupported": [],
           "witnesses": {}, "samples": [], "stats": {}, "error": None}
    E = Engine(regions=regions_for(known, label), time_budget=budget)
    E.xcheck_budget = int(os.environ.get("VERIF_XCHECK", "0") or 0)
    del core.FP_LOG[:]
    del core.FP_SHAPES[:]

    def on_alarm(sig, frm):
        raise Budget("hard wall-clock limit")
    mutdir = None
    try:
        signal.signal(signal.SIGALRM, on_alarm)
        signal.alarm(int(budget * 1.5) + 30)
        mod = importlib.import_module(modname)
        fn = getattr(mod, func)
        if mutants:
            params = dict(params, _mutants=mutants)
            mutdir = _mutant_copy(mutants)
            os.environ["VERIF_REAL_REPO"] = mutdir
        try:
            E.explore(lambda e: fn(e, **params))
        except Budget as ex:
            E.unsupported.append("budget: %s" % ex)
    except loader.MutantNotApplicable as ex:
        res["error"] = "mutant-not-applicable: %s" % ex
    except BaseException as ex:  # noqa: BLE001 - harness error, reported as inconclusive
        res["error"] = "%s: %s\n%s" % (type(ex).__name__, ex, traceback.format_exc()[-1500:])
    finally:
        signal.alarm(0)
    res["failures"] = [f.as_dict() for f in E.failures.values()]
    res["known"] = [f.as_dict() for f in E.known_hits.values()]
    if mutdir:
        # canary run: a kill only counts if the counterexample reproduces on the mutated package
        res["replayed"] = []
        try:
            for f in res["failures"][:4]:
                d = tempfile.mkdtemp(prefix="verif-canary-")
                try:
                    p0 = {k: v for k, v in params.items() if k != "_mutants"}
                    if mod.replay(p0, f["model"], f["notes"], d, 0):
                        res["replayed"].append(f["obligation"])
                        break
                except Exception as ex:  # noqa: BLE001
                    res["replayed"].append("replay crashed (%s) - counts as behavioural difference" % type(ex).__name__)
                    break
                finally:
                    shutil.rmtree(d, ignore_errors=True)
        finally:
            os.environ.pop("VERIF_REAL_REPO", None)
            shutil.rmtree(mutdir, ignore_errors=True)
    res["unsupported"] = list(E.unsupported)
    res["witnesses"] = dict(E.witnesses)
    res["samples"] = E.samples
    res["stats"] = E.stats()
    res["wall_s"] = round(time.time() - t0, 2)
    res["fp_log"] = sorted(set(core.FP_LOG), key=repr)
    res["fp_shapes"] = sorted(set(core.FP_SHAPES), key=repr)
    return res


def _mutant_copy(mutants):
    """Scratch copy of the package with the textual mutants applied (for replays of canary runs)."""
    d = tempfile.mkdtemp(prefix="verif-mutant-")
    shutil.copytree(loader.PKG, os.path.join(d, "torrentfile"), ignore=shutil.ignore_patterns("__pycache__"))
    for m, reps in mutants.items():
        p = os.path.join(d, "torrentfile", m + ".py")
        with open(p, encoding="utf-8") as f:
            src = f.read()
        for old, new in reps:
            if src.count(old) < 1:
                shutil.rmtree(d, ignore_errors=True)
                raise loader.MutantNotApplicable("%s: pattern not found" % m)
            src = src.replace(old, new)
        with open(p, "w", encoding="utf-8") as f:
            f.write(src)
    return d


def run_jobs(modname, jobs, known, budget, workers, mutants=None):
    args = [(modname, label, func, params, budget, known, mutants) for (label, func, params) in jobs]
    if not args:
        return []
    if workers <= 1 or len(args) == 1:
        return [_run_job(a) for a in args]
    ctx = mp.get_context("fork")
    with ctx.Pool(min(workers, len(args)), maxtasksperchild=8) as pool:
        return list(pool.imap_unordered(_run_job, args, chunksize=1))


def main(modname, argv=None):
    argv = list(sys.argv[1:] if argv is None else argv)
    tier = os.environ.get("VERIF_TIER") or "quick"
    only = None
    replay_path = None
    no_canaries = False
    while argv:
        a = argv.pop(0)
        if a == "--tier":
            tier = argv.pop(0)
        elif a == "--only":
            only = argv.pop(0)
        elif a == "--replay":
            replay_path = argv.pop(0)
        elif a == "--no-canaries":
            no_canaries = True
    if tier not in ("quick", "thorough"):
        tier = "quick"
    seed = int(os.environ.get("VERIF_SEED", "0") or 0)
    mod = importlib.import_module(modname)
    prop = mod.PROPERTY
    t0 = time.time()
    workdir = tempfile.mkdtemp(prefix="verif-%s-" % prop)
    try:
        if replay_path:
            with open(replay_path) as f:
                sc = json.load(f)
            fails = mod.replay(sc["params"], sc["model"], sc.get("notes", {}), workdir, sc.get("seed", 0))
            for x in fails:
                print("REPLAY-FAIL", x)
            print("replay: %s" % ("reproduces" if fails else "does not reproduce"))
            return EXIT_VIOLATION if fails else EXIT_OK
        return _main(mod, modname, prop, tier, seed, only, workdir, t0, no_canaries)
    finally:
        shutil.rmtree(workdir, ignore_errors=True)


def _main(mod, modname, prop, tier, seed, only, workdir, t0, no_canaries):
    if tier == "thorough" and "VERIF_XCHECK" not in os.environ:
        os.environ["VERIF_XCHECK"] = "6"        # per job: re-decide up to 6 obligation queries with cvc5
    known = load_known(prop)
    workers = int(os.environ.get("VERIF_WORKERS", "0") or 0) or min(16, os.cpu_count() or 4)
    budget = float(os.environ.get("VERIF_JOB_BUDGET", "0") or 0) or (600 if tier == "quick" else 3000)
    jobs = mod.jobs(tier)
    if only:
        jobs = [j for j in jobs if fnmatch.fnmatch(j[0], only)]
    inconclusive = []
    # 1. model validation: the model and the unmodified package agree on pinned inputs
    val_runs, val_errs = 0, []
    if hasattr(mod, "validate") and not only:
        try:
            val_runs, val_errs = mod.validate(tier, workdir, seed)
        except (Exception, core.Unsupported, core.Budget) as ex:  # noqa: BLE001
            val_errs = ["validate crashed: %s: %s" % (type(ex).__name__, ex), traceback.format_exc()[-1200:]]
        for e in val_errs:
            if not e.startswith("VIOLATION:"):
                inconclusive.append("model-validation: %s" % e)
    # 2. symbolic jobs
    results = run_jobs(modname, jobs, known, budget, workers)
    extra = {}
    if hasattr(mod, "extra") and not only:
        try:
            extra = mod.extra(tier, workdir, seed) or {}
        except Exception as ex:  # noqa: BLE001
            inconclusive.append("extra crashed: %s: %s %s" % (type(ex).__name__, ex, traceback.format_exc()[-800:]))
        results += extra.get("jobs", [])
    if hasattr(mod, "post") and not only:
        try:
            results += mod.post(results, tier) or []
        except Exception as ex:  # noqa: BLE001
            inconclusive.append("post crashed: %s: %s %s" % (type(ex).__name__, ex, traceback.format_exc()[-800:]))
    results.sort(key=lambda r: r["label"])
    # 3. replay
    violations, known_lines, replays = [], [], 0
    # scratch evaluations (VERIF_NO_EVIDENCE) keep their replay files out of the committed evidence directory
    rdir = os.path.join(ROOT, "evidence", "replays") if not os.environ.get("VERIF_NO_EVIDENCE") else os.path.join(tempfile.gettempdir(), "verif-replays-%d" % os.getuid())
    os.makedirs(rdir, exist_ok=True)
    seen_oblig = set()
    for r in results:
        if r.get("error"):
            inconclusive.append("%s: %s" % (r["label"], r["error"]))
        for u in r["unsupported"]:
            inconclusive.append("%s: %s" % (r["label"], u))
        for f in r["failures"]:
            if f["obligation"].startswith("ORACLE."):
                inconclusive.append("%s: oracle self-check failed: %s %s" % (r["label"], f["obligation"], f["model"]))
                continue
            key = (f["obligation"],)
            if key in seen_oblig and len(violations) >= 8:
                continue
            seen_oblig.add(key)
            replays += 1
            ok = _replay(mod, r, f, workdir, seed)
            if ok:
                n = len(violations)
                path = os.path.join(rdir, "%s-%d.json" % (prop, n))
                with open(path, "w") as fd:
                    json.dump({"property": prop, "job": r["label"], "func": r["func"], "params": r["params"],
                               "obligation": f["obligation"], "msg": f["msg"], "model": f["model"],
                               "notes": f["notes"], "seed": seed, "concrete_failures": ok}, fd, indent=1, default=str)
                violations.append((f, path, r["label"]))
            else:
                inconclusive.append("%s: counterexample for %s did not reproduce on the real code (model %s)"
                                    % (r["label"], f["obligation"], json.dumps(f["model"], default=str)[:300]))
        for f in r["known"]:
            kid = f["known"]
            if any(k[0] == kid for k in known_lines):
                continue
            replays += 1
            ok = _replay(mod, r, f, workdir, seed)
            if ok:
                what = next((k.get("what", "") for k in known if k["id"] == kid), "")
                known_lines.append((kid, what, f))
            else:
                inconclusive.append("%s: known finding %s: solver instance did not reproduce (model %s)"
                                    % (r["label"], kid, json.dumps(f["model"], default=str)[:300]))
    for n_, e in enumerate(x for x in val_errs if x.startswith("VIOLATION:")):
        # the unmodified package failed the independent concrete oracle during model validation: a real violation,
        # found by a concrete run (not by the solver); reported because a true alarm must never be lost
        path = os.path.join(rdir, "%s-v%d.json" % (prop, n_))
        with open(path, "w") as fd:
            json.dump({"property": prop, "job": "model-validation", "found_by": "concrete validation run", "detail": e}, fd, indent=1)
        violations.append(({"obligation": "validation", "msg": e[:300], "model": {}}, path, "model-validation"))
    # 4. vacuity
    reached = sum(r["stats"].get("checks", 0) for r in results)
    if jobs and reached == 0 and not only:
        inconclusive.append("vacuous: no obligation was reached on any path")
    want_w = getattr(mod, "WITNESSES", [])
    got_w = {}
    for r in results:
        for k, v in r["witnesses"].items():
            got_w[k] = got_w.get(k, False) or v
    if not only:
        for wname in want_w:
            if not got_w.get(wname):
                inconclusive.append("witness not reached: %s" % wname)
    # 5. canaries (thorough)
    canary_res = []
    want_canaries = tier == "thorough" or os.environ.get("VERIF_CANARIES") == "1"
    if want_canaries and hasattr(mod, "canaries") and not only and not no_canaries and not violations:
        for label, mutants, joblabels in mod.canaries(tier):
            cj = [j for j in jobs if any(fnmatch.fnmatch(j[0], p) for p in joblabels)]
            rs = run_jobs(modname, cj, known, budget, workers, mutants=mutants)
            if any(r.get("error", "") and r["error"].startswith("mutant-not-applicable") for r in rs):
                canary_res.append({"canary": label, "status": "not-applicable (source changed)"})
                continue
            killed = any(r.get("replayed") for r in rs)
            canary_res.append({"canary": label, "status": "killed" if killed else "SURVIVED"})
            if not killed:
                inconclusive.append("canary survived (harness insensitive): %s" % label)
    # 6. evidence + verdict
    wall = round(time.time() - t0, 2)
    paths = sum(r["stats"].get("paths", 0) for r in results)
    queries = sum(r["stats"].get("queries", 0) for r in results)
    samples = []
    for r in results:
        for s in r["samples"][:1]:
            samples.append({"job": r["label"], **s})
    obl = {}
    for r in results:
        for k, v in r["stats"].get("checks_by_obligation", {}).items():
            obl[k] = obl.get(k, 0) + v
    ev = {
        "property_id": prop, "tier": tier, "seed": seed, "level": "model_checking",
        "coverage": {
            "states": max(paths, 0), "transitions": max(queries, 0),
            "traces_validated_against_impl": val_runs + replays,
            "samples": samples[:40] or [{"note": "no path completed"}],
            "exhaustive": not inconclusive,
            "explanation": "states = symbolic paths explored to the end (each covers every input satisfying its path "
                           "condition); transitions = SMT queries discharged; traces_validated = concrete runs of the "
                           "unmodified package on real files (model validation + counterexample replays).",
            "bounds": mod.BOUNDS(tier) if hasattr(mod, "BOUNDS") else {},
            "functions_encoded": loader.functions_encoded(getattr(mod, "MODULES", [])),
            "source_hashes": {m: loader.source_hash(m) for m in getattr(mod, "MODULES", [])},
            "jobs": [{"job": r["label"], **{k: r["stats"].get(k) for k in ("paths", "aborted", "forks", "pruned",
                                                                            "queries", "solver_s", "checks")},
                      "wall_s": r.get("wall_s"), "failures": len(r["failures"]), "known": len(r["known"]),
                      "inconclusive": len(r["unsupported"]) + (1 if r.get("error") else 0)} for r in results],
            "obligations_checked": obl,
            "solver_seconds": round(sum(r["stats"].get("solver_s", 0) for r in results), 2),
            "cross_check_cvc5": {k: sum(r["stats"].get("cross_check_cvc5", {}).get(k, 0) for r in results)
                                 for k in ("agree", "disagree", "inconclusive", "unavailable", "seconds")},
            "witnesses": got_w,
            "model_validation_runs": val_runs,
            "replays": replays,
            "canaries": canary_res,
            "known_findings_applied": [k["id"] for k in known],
            "known_findings_reproduced": [k[0] for k in known_lines],
            "inconclusive": inconclusive[:30],
            "notes": extra.get("notes", []),
        },
        "assumptions": list(getattr(mod, "ASSUMPTIONS", [])),
        "wall_s": wall,
        "violations": len(violations),
    }
    if only is None and not os.environ.get("VERIF_NO_EVIDENCE"):
        os.makedirs(os.path.join(ROOT, "evidence"), exist_ok=True)
        with open(os.path.join(ROOT, "evidence", "%s.json" % prop), "w") as fd:
            json.dump(ev, fd, indent=1, default=str)
    for kid, what, f in known_lines:
        print("KNOWN-FINDING: property=%s %s [%s] instance=%s" % (prop, what, kid, json.dumps(f["model"], default=str)))
    for f, path, label in violations:
        print("VIOLATION property=%s replay=%s" % (prop, path))
        print("  job=%s obligation=%s %s model=%s" % (label, f["obligation"], f["msg"], json.dumps(f["model"], default=str)))
    print("%s %s: jobs=%d paths=%d queries=%d solver=%.1fs validation_runs=%d replays=%d wall=%.1fs"
          % (prop, tier, len(results), paths, queries, ev["coverage"]["solver_seconds"], val_runs, replays, wall))
    if violations:
        return EXIT_VIOLATION
    if inconclusive:
        for i in inconclusive[:20]:
            print("INCONCLUSIVE property=%s reason=%s" % (prop, i))
        return EXIT_INCONCLUSIVE
    print("OK property=%s held on everything explored (bounded; see evidence/%s.json)" % (prop, prop))
    return EXIT_OK


def _replay(mod, r, f, workdir, seed):
    d = tempfile.mkdtemp(dir=workdir)
    # a replay runs the real package on real files: keep it inside the scratch directory ('~' and the working directory)
    oldhome, oldcwd = os.environ.get("HOME"), os.getcwd()
    os.makedirs(os.path.join(d, "home"), exist_ok=True)
    os.environ["HOME"] = os.path.join(d, "home")
    try:
        return mod.replay(r["params"], f["model"], f["notes"], d, seed)
    except Exception as ex:  # noqa: BLE001
        sys.stderr.write("replay crashed for %s: %s: %s\n%s\n" % (r["label"], type(ex).__name__, ex, traceback.format_exc()[-600:]))
        return ["replay crashed: %s: %s" % (type(ex).__name__, ex)] if getattr(mod, "REPLAY_CRASH_IS_FAILURE", False) else []
    finally:
        if oldhome is not None:
            os.environ["HOME"] = oldhome
        try:
            os.chdir(oldcwd)
        except OSError:
            pass
        shutil.rmtree(d, ignore_errors=True)
