"""C12: only power-of-two piece lengths of at least 16 KiB are ever accepted or chosen."""
import os
import sys

import z3

from symx import core
from symx.core import tb, conj, disj, neg, SymInt, SymBool, Unsupported
from symx.afs import AFS
from symx.loader import World
from symx import strs

from harness import creators as cr

PROPERTY = "C12"
MODULES = ["utils", "torrent", "cli", "commands"]
ASSUMPTIONS = [
    "integer argument: every integer with |x| < 2^64 (plus a second job for 2^64 <= x < 2^1100) is one solver variable; "
    "power-of-two-ness in the oracle is a finite disjunction",
    "string argument: fixed length n <= 8, each character a symbolic character class (ASCII digit, non-ASCII decimal, "
    "digit-not-decimal, numeric-not-digit, whitespace, +, -, _, other) with a symbolic digit value; class semantics of "
    "isnumeric/isdigit/isdecimal/int() extracted from this interpreter's unicodedata and checked on representatives",
    "libm stub: math.log2 / 2**float on a symbolic value are havoc'd within their monotone bracket (exact on powers of "
    "two); a counterexample that depends on a havoc'd float is only reported after it reproduces on the real function "
    "(up to 64 solver candidates are tried)",
    "automatic choice: `size / 2**k > c` is evaluated exactly; lemma L-fpdiv (z3 QF_FP, all size < 2^53) shows the IEEE "
    "evaluation agrees",
    "exponents 26..29 may be rejected or read as 2^n; falsy arguments (0, '', None) mean 'not given' to MetaFile and are "
    "judged only on the normaliser itself",
]
WITNESSES = ["accepted power of two", "accepted exponent", "rejected value", "string accepted", "string rejected",
             "auto: largest piece length reached"]
MAXPOW = 64


def BOUNDS(tier):
    return {"integer": "|x| < 2^64 symbolic; 2^64 <= x < 2^1100 symbolic (second job)",
            "string": "lengths 1..%d, 9 character classes per position" % (6 if tier == "quick" else 8),
            "payload size": "0 <= size < 2^53 (two symbolic sizes for monotonicity)",
            "routes": "utils.normalize_piece_length, utils.get_piece_length, utils.path_piece_length, MetaFile.__init__, "
                      "commands.parse_config_file (config route passes the string through)",
            "outside": "strings longer than the bound; non-int/str argument types; argparse tokenisation"}


def jobs(tier):
    out = [("int.small", "job_int", dict(lo=-(2 ** 64) + 1, hi=2 ** 64 - 1)),
           ("int.huge", "job_int", dict(lo=2 ** 64, hi=2 ** 1100 - 1)),
           ("auto.monotone", "job_auto", {}),
           ("auto.path", "job_auto_path", {}),
           ("metafile.int", "job_metafile", dict(kind="int")),
           ("auto.history.grow-in-place", "job_auto_history", {}),
           ("auto.linked-files", "job_auto_links", dict(links=True)),
           ("auto.namespace-reused", "job_auto_namespace", dict(reuse=True))]
    for n in (1, 2, 3):
        out.append(("config.end-to-end.n%d" % n, "job_config_e2e", dict(n=n, route="config")))
    for n in range(1, (6 if tier == "quick" else 8) + 1):
        out.append(("str.n%d" % n, "job_str", dict(n=n)))
        if n <= 5 or tier != "quick":
            out.append(("metafile.str.n%d" % n, "job_metafile", dict(kind="str", n=n)))
    return out


def pow2_ge16k(x, hi=MAXPOW):
    if isinstance(x, int):
        return x >= 16384 and x & (x - 1) == 0
    return SymBool(z3.Or([x.e == 2 ** k for k in range(14, hi)]))


def valid(x, hi=MAXPOW):
    return disj(pow2_ge16k(x, hi), conj(x >= 14, x <= 25))


def either(x):
    return conj(x >= 26, x <= 29)


def expected(x):
    """Normalised value for a valid-or-either x."""
    if isinstance(x, int):
        return 2 ** x if x <= 29 else x
    e = x.e
    r = e
    for k in range(14, 30):
        r = z3.If(e == k, z3.IntVal(2 ** k), r)
    return SymInt(r)


def _real_normalize(arg):
    mods = cr.real_torrentfile()
    U = mods["torrentfile.utils"]
    try:
        return ("ok", U.normalize_piece_length(arg))
    except U.PieceLengthValueError:
        return ("plve", None)
    except Exception as ex:  # noqa: BLE001
        return ("exc", type(ex).__name__)


def conc_verdict(arg):
    """Concrete oracle for one argument (int or str): list of failing obligations."""
    kind, r = _real_normalize(arg)
    if isinstance(arg, str):
        try:
            den = int(arg)
        except ValueError:
            den = None
        canonical = arg.isascii() and arg.isdigit() and (len(arg) == 1 or arg[0] != "0")
    else:
        den, canonical = arg, True
    ok = den is not None and ((den >= 16384 and den & (den - 1) == 0) or 14 <= den <= 25)
    eith = den is not None and 26 <= den <= 29
    if kind == "exc":
        return ["C12.only-piece-length-error (%s)" % r]
    if kind == "ok":
        if not (ok or eith):
            return ["C12.accepted-only-valid (returned %r)" % (r,)]
        if r != (2 ** den if den <= 29 else den):
            return ["C12.normalised-value (returned %r)" % (r,)]
        return []
    if ok and canonical:
        return ["C12.valid-accepted"]
    return []


def _call(E, w, fn, arg, tag, x_for_enum=None, hi=MAXPOW):
    """Run fn(arg) and judge the outcome against the oracle. `den` = the integer
    the argument denotes (None when it denotes none)."""
    U = w.mod("utils")
    try:
        r = fn(arg)
        outcome = "ok"
    except U.PieceLengthValueError:
        outcome, r = "plve", None
    except Unsupported:
        raise
    except Exception as ex:  # noqa: BLE001
        E.fail(tag + ".only-piece-length-error", "%s: %s" % (type(ex).__name__, ex))
        return None, None
    return outcome, r


def _havoc_confirm(E, w, x, bad_cond, tag, msg):
    """A violation that hinges on a havoc'd float: enumerate solver candidates and
    report only one that reproduces on the real function (real libm)."""
    tried = []
    for _ in range(64):
        c = conj(bad_cond, *[x != t for t in tried])
        if not E.feasible(c):
            return
        if isinstance(c, bool):
            m = E.s.model()
        else:
            E.s.push()
            E.s.add(c.e)
            E._sat()
            m = E.s.model()
            E.s.pop()
        v = m.eval(x.e, model_completion=True).as_long()
        tried.append(v)
        if conc_verdict(v):
            E.assume(x == v)
            E.fail(tag, "%s (x=%d, confirmed on the real function)" % (msg, v))
            return
    raise Unsupported("havoc: 64 candidates did not reproduce on the real libm (%s)" % tag)


def job_int(E, lo, hi, _mutants=None):
    w = World(AFS(), mutants=_mutants)
    U = w.mod("utils")
    x = E.int("x", lo, hi)
    top = 1100 if hi >= 2 ** 64 else MAXPOW
    outcome, r = _call(E, w, U.normalize_piece_length, x, "C12.int")
    if outcome is None:
        return
    ok, eith = valid(x, top), either(x)
    if outcome == "ok":
        E.witness("accepted power of two", x == 2 ** 20)
        E.witness("accepted exponent", x == 17)
        good = disj(ok, eith)
        if w.havoc_used:
            _havoc_confirm(E, w, x, neg(good), "C12.int.accepted-only-valid", "non power of two accepted")
            E.assume(good)
        else:
            E.check(good, "C12.int.accepted-only-valid", "accepted although not a power of two >= 16 KiB nor an exponent")
        E.check(r == expected(x), "C12.int.normalised-value", "returned %r" % (r,))
    else:
        E.witness("rejected value", x == 16385)
        if w.havoc_used:
            _havoc_confirm(E, w, x, ok, "C12.int.valid-accepted", "valid value rejected")
            E.assume(neg(ok))
        else:
            E.check(neg(ok), "C12.int.valid-accepted", "valid piece length rejected")


def job_str(E, n, _mutants=None):
    w = World(AFS(), mutants=_mutants)
    U = w.mod("utils")
    s = strs.SymStr.fresh(E, "s", n)
    E.note("strlen", n)
    outcome, r = _call(E, w, U.normalize_piece_length, s, "C12.str")
    if outcome is None:
        return
    try:
        den = s.__symint__()
    except ValueError:
        den = None
    if outcome == "ok":
        E.witness("string accepted", True)
        if not E.check(den is not None, "C12.str.accepted-only-valid", "string that denotes no integer accepted"):
            return
        good = disj(valid(den), either(den))
        if w.havoc_used and isinstance(den, SymInt):
            bad = neg(good)
            if E.feasible(bad):
                # confirm through concrete strings
                for _ in range(64):
                    if not E.feasible(bad):
                        break
                    E.s.push()
                    if not isinstance(bad, bool):
                        E.s.add(bad.e)
                    E._sat()
                    mv = E.model_values()
                    E.s.pop()
                    cs = strs.concretize(mv, "s", n)
                    if conc_verdict(cs):
                        for i, c in enumerate(s.chars):
                            E.assume(conj(c.grp == mv["s.g%d" % i], c.dig == mv["s.d%d" % i]))
                        E.fail("C12.str.accepted-only-valid", "string %r accepted (confirmed on the real function)" % cs)
                        return
                    bad = conj(bad, den != int(cs))
                else:
                    raise Unsupported("havoc: 64 string candidates did not reproduce")
            E.assume(good)
        else:
            E.check(good, "C12.str.accepted-only-valid", "string accepted although it denotes no valid piece length")
        E.check(r == expected(den), "C12.str.normalised-value", "returned %r" % (r,))
    else:
        E.witness("string rejected", True)
        if den is not None:
            canon = s.canonical_decimal()
            cond = neg(conj(canon, valid(den)))
            if w.havoc_used:
                if E.feasible(neg(cond)):
                    raise Unsupported("havoc on the rejection path of a canonical valid string")
            else:
                E.check(cond, "C12.str.valid-accepted", "canonical decimal string denoting a valid piece length rejected")


def job_auto(E, _mutants=None):
    w = World(AFS(), mutants=_mutants)
    U = w.mod("utils")
    a = E.int("a", 0, 2 ** 53 - 1)
    b = E.int("b", 0, 2 ** 53 - 1)
    E.assume(a <= b)
    try:
        ga, gb = U.get_piece_length(a), U.get_piece_length(b)
    except Exception as ex:  # noqa: BLE001
        E.fail("C12.auto.no-exception", "%s: %s" % (type(ex).__name__, ex))
        return
    for g in (ga, gb):
        E.check(conj(pow2_ge16k(g), g <= 2 ** 24), "C12.auto.range", "automatic piece length %r" % (g,))
    E.check(ga <= gb, "C12.auto.monotone", "g(a)=%r > g(b)=%r for a <= b" % (ga, gb))
    E.witness("auto: largest piece length reached", gb == 2 ** 24)


def job_auto_path(E, _mutants=None):
    fs = AFS()
    s0 = E.int("s0", 0, 2 ** 50)
    s1 = E.int("s1", 0, 2 ** 50)
    fs.add("/data/name/a", ("f", 0), s0)
    fs.add("/data/name/b", ("f", 1), s1)
    w = World(fs, mutants=_mutants)
    U, T = w.mod("utils"), w.mod("torrent")
    try:
        g = U.path_piece_length("/data/name")
        m = T.MetaFile(path="/data/name")
    except Exception as ex:  # noqa: BLE001
        E.fail("C12.auto.no-exception", "%s: %s" % (type(ex).__name__, ex))
        return
    E.check(conj(pow2_ge16k(g), g <= 2 ** 24), "C12.auto.range")
    E.check(m.meta["info"]["piece length"] == g, "C12.auto.recorded", "MetaFile records %r, chosen %r" % (m.meta["info"]["piece length"], g))
    # the choice is the one for the total payload size
    g2 = w.mod("utils").get_piece_length(s0 + s1)
    E.check(g == g2, "C12.auto.of-total-size")


def job_metafile(E, kind, n=0, _mutants=None):
    fs = AFS()
    fs.add("/data/name", ("f", 0), E.int("s0", 0, 2 ** 20))
    w = World(fs, mutants=_mutants)
    U, T = w.mod("utils"), w.mod("torrent")
    if kind == "int":
        x = E.int("x", -(2 ** 64) + 1, 2 ** 64 - 1)
        E.assume(x != 0)
        arg, den = x, x
    else:
        arg = strs.SymStr.fresh(E, "s", n)
        E.note("strlen", n)
        den = "later"
    try:
        m = T.MetaFile(path="/data/name", piece_length=arg)
        outcome = "ok"
    except U.PieceLengthValueError:
        outcome = "plve"
    except Unsupported:
        raise
    except Exception as ex:  # noqa: BLE001
        E.fail("C12.metafile.only-piece-length-error", "%s: %s" % (type(ex).__name__, ex))
        return
    if w.havoc_used:
        return      # float-dependent paths are judged (with confirmation) by the int/str jobs
    if den == "later":
        try:
            den = arg.__symint__()
        except ValueError:
            den = None
    if outcome == "ok":
        rec = m.meta["info"].get("piece length")
        if E.check(den is not None, "C12.metafile.accepted-only-valid"):
            E.check(disj(valid(den), either(den)), "C12.metafile.accepted-only-valid", "metafile produced for an invalid piece length")
            E.check(rec == expected(den), "C12.metafile.recorded-value", "recorded %r" % (rec,))
    elif den is not None and kind == "int":
        E.check(neg(valid(den)), "C12.metafile.valid-accepted")


def job_config(E, route=None, _mutants=None):
    """The configuration-file route hands the string to the creator unchanged."""
    from symx.loader import BenTok
    fs = AFS()
    s = strs.SymStr.fresh(E, "s", 3)
    fs.add_token("/cfg/torrentfile.ini", ("INI", {"config": {"piece-length": s}}))
    w = World(fs, mutants=_mutants)
    C = w.mod("commands")
    kwargs = {}
    try:
        C.parse_config_file("/cfg/torrentfile.ini", kwargs)
    except Exception as ex:  # noqa: BLE001
        E.fail("C12.config.no-exception", "%s: %s" % (type(ex).__name__, ex))
        return
    E.check(kwargs.get("piece_length") is s, "C12.config.passes-through", "kwargs=%r" % (kwargs,))


def job_auto_history(E, _mutants=None):
    """Automatic piece length on the second creation in one process, after a file
    below a sub-directory grew in place (no directory entry changes)."""
    fs = AFS()
    s0 = E.int("s0", 0, 2 ** 40)
    s1 = E.int("s1", 0, 2 ** 40)
    E.assume(s1 >= s0)
    fs.add("/data/name/sub/a", ("f", 0), s0)
    fs.add("/data/name/b", ("f", 1), 10)
    w = World(fs, mutants=_mutants)
    U, T = w.mod("utils"), w.mod("torrent")
    try:
        m0 = T.MetaFile(path="/data/name")
        g0 = m0.meta["info"]["piece length"]
        fs.add("/data/name/sub/a", ("f", 0), s1)
        m1 = T.MetaFile(path="/data/name")
        g1 = m1.meta["info"]["piece length"]
    except Exception as ex:  # noqa: BLE001
        E.fail("C12.auto.no-exception", "%s: %s" % (type(ex).__name__, ex))
        return
    fresh = World(fs.clone(), mutants=_mutants).mod("utils").get_piece_length(s1 + 10)
    E.check(g1 == fresh, "C12.auto.history", "second creation chose %r, the payload as it is now needs %r" % (g1, fresh))
    E.check(g0 <= g1, "C12.auto.monotone-in-process", "the choice decreased from %r to %r although the payload grew" % (g0, g1))


def job_auto_namespace(E, reuse=True, _mutants=None):
    """The Namespace a create returned is used again for another (smaller) payload, no piece length ever given: the
    automatic choice is made for the new payload."""
    fs = AFS()
    s0 = E.int("s0", 1, 2 ** 40)
    s1 = E.int("s1", 1, 2 ** 40)
    E.assume(s1 <= s0)
    fs.add("/data/big", ("f", 0), s0)
    fs.add("/data/small", ("f", 1), s1)
    fs.mkdirs("/out")
    w = World(fs, mutants=_mutants)

    class NoHash:        # cut: the piece length is decided before hashing starts; hashing 2^40 bytes is not explored
        def __init__(self, *a, **k):
            pass

        def __iter__(self):
            return iter(())
    w.mod("torrent").Hasher = NoHash
    try:
        ns = w.mod("cli").execute(["create", "--prog", "0", "-o", "/out/one.torrent", "/data/big"])
        g0 = ns.meta["info"]["piece length"]
        ns.content = "/data/small"
        ns.outfile = "/out/two.torrent"
        g1 = w.mod("commands").create(ns).meta["info"]["piece length"]
    except SystemExit as ex:
        E.fail("C12.auto.parser-accepts", str(ex))
        return
    except Exception as ex:  # noqa: BLE001
        E.fail("C12.auto.no-exception", "%s: %s" % (type(ex).__name__, ex))
        return
    want = World(fs.clone(), mutants=_mutants).mod("utils").get_piece_length(s1)
    E.check(g1 == want, "C12.auto.namespace-reused", "second create with the reused Namespace chose %r, the payload needs %r (first: %r)" % (g1, want, g0))


def job_auto_links(E, links=True, _mutants=None):
    """Automatic piece length for a payload directory that holds symbolic links to regular files: the bytes behind a
    link are payload (they are listed and hashed), so they count for the choice like any other file's."""
    fs = AFS()
    s0 = E.int("s0", 0, 2 ** 40)
    s1 = E.int("s1", 0, 2 ** 40)
    fs.add("/data/name/plain", ("f", 0), s0)
    fs.add("/elsewhere/big", ("f", 1), s1)
    fs.add_link("/data/name/sub/link", "/elsewhere/big")
    fs.add_link("/data/name/rel", "../../elsewhere/big")
    w = World(fs, mutants=_mutants)
    T = w.mod("torrent")
    try:
        m = T.MetaFile(path="/data/name")
        g = m.meta["info"]["piece length"]
        fsp = AFS()
        fsp.add("/data/name/plain", ("f", 0), s0)
        gp = World(fsp, mutants=_mutants).mod("torrent").MetaFile(path="/data/name").meta["info"]["piece length"]
    except Exception as ex:  # noqa: BLE001
        E.fail("C12.auto.no-exception", "%s: %s" % (type(ex).__name__, ex))
        return
    want = World(fs.clone(), mutants=_mutants).mod("utils").get_piece_length(s0 + 2 * s1)
    E.check(g == want, "C12.auto.links", "payload of %r bytes (two links to a file of s1 bytes) got piece length %r, the same amount in plain files gets %r" % (s0 + 2 * s1, g, want))
    E.check(gp <= g, "C12.auto.links-monotone", "adding linked files to the payload lowered the choice from %r to %r" % (gp, g))


def job_config_e2e(E, n, route=None, _mutants=None):
    """piece-length given in the configuration file must mean what the same string means as a keyword."""
    fs = AFS()
    fs.add("/data/name", ("f", 0), 5)
    s = strs.SymStr.fresh(E, "s", n)
    E.note("strlen", n)
    fs.add_token("/cfg/torrentfile.ini", ("INI", {"config": {"piece-length": s}}))
    w = World(fs, mutants=_mutants)
    C, T, U = w.mod("commands"), w.mod("torrent"), w.mod("utils")

    def outcome(kwargs):
        try:
            m = T.MetaFile(path="/data/name", **kwargs)
            return ("ok", m.meta["info"]["piece length"])
        except U.PieceLengthValueError:
            return ("plve", None)
        except Unsupported:
            raise
        except Exception as ex:  # noqa: BLE001
            return ("exc", type(ex).__name__)
    kw = {}
    try:
        C.parse_config_file("/cfg/torrentfile.ini", kw)
    except Unsupported:
        raise
    except Exception as ex:  # noqa: BLE001
        E.fail("C12.config.no-exception", "%s: %s" % (type(ex).__name__, ex))
        return
    a = outcome(kw)
    b = outcome({"piece_length": s})
    if w.havoc_used:
        return
    E.check(a[0] == b[0], "C12.config.same-verdict", "config route: %r, keyword route: %r" % (a, b))
    if a[0] == b[0] == "ok":
        E.check(a[1] == b[1], "C12.config.same-value", "config route records %r, keyword route %r" % (a[1], b[1]))


def post(results, tier):
    from harness import lemmas
    log = set()
    for r in results:
        for e in r.get("fp_log", []):
            log.add(tuple(e))
    return lemmas.fpdiv_jobs(sorted(log, key=repr))


def _replay_auto_namespace(model, workdir):
    import io
    import contextlib
    s0, s1 = int(model["s0"]), int(model["s1"])
    os.makedirs(os.path.join(workdir, "data"))
    os.makedirs(os.path.join(workdir, "out"))
    for nm, n in (("big", s0), ("small", s1)):
        with open(os.path.join(workdir, "data", nm), "wb") as f:
            f.truncate(n)
    mods = cr.real_torrentfile()
    # hashing sparse files of this size for real is not feasible: the piece length is decided before hashing starts,
    # so the hashers are replaced by one that yields nothing (only the recorded piece length is judged)
    T = mods["torrentfile.torrent"]

    class NoHash:
        def __init__(self, *a, **k):
            pass

        def __iter__(self):
            return iter(())
    saved = T.Hasher
    T.Hasher = NoHash
    try:
        with contextlib.redirect_stdout(io.StringIO()), contextlib.redirect_stderr(io.StringIO()):
            ns = mods["torrentfile.cli"].execute(["create", "--prog", "0", "-o", os.path.join(workdir, "out", "one.torrent"), os.path.join(workdir, "data", "big")])
            ns.content = os.path.join(workdir, "data", "small")
            ns.outfile = os.path.join(workdir, "out", "two.torrent")
            g1 = mods["torrentfile.commands"].create(ns).meta["info"]["piece length"]
    except BaseException as ex:  # noqa: BLE001
        return ["C12.auto.no-exception: %s: %s" % (type(ex).__name__, ex)]
    finally:
        T.Hasher = saved
    want = 16384
    while s1 / want > 1000 and want < 2 ** 24:
        want *= 2
    return [] if g1 == want else ["C12.auto.namespace-reused (%r vs %r)" % (g1, want)]


def _replay_auto_links(model, workdir):
    s0, s1 = int(model["s0"]), int(model["s1"])
    root = os.path.join(workdir, "data", "name")
    os.makedirs(os.path.join(root, "sub"))
    os.makedirs(os.path.join(workdir, "elsewhere"))
    for pth, n in ((os.path.join(root, "plain"), s0), (os.path.join(workdir, "elsewhere", "big"), s1)):
        with open(pth, "wb") as f:
            f.truncate(n)
    os.symlink(os.path.join(workdir, "elsewhere", "big"), os.path.join(root, "sub", "link"))
    os.symlink("../../elsewhere/big", os.path.join(root, "rel"))
    mods = cr.real_torrentfile()
    T = mods["torrentfile.torrent"]
    try:
        g = T.MetaFile(path=root).meta["info"]["piece length"]
    except Exception as ex:  # noqa: BLE001
        return ["C12.auto.no-exception: %s" % ex]
    want = 16384
    while (s0 + 2 * s1) / want > 1000 and want < 2 ** 24:
        want *= 2
    return [] if g == want else ["C12.auto.links (%r vs %r)" % (g, want)]


def _replay_auto_history(model, workdir):
    """Sparse files stand in for the payload (only sizes matter to MetaFile)."""
    s0, s1 = int(model["s0"]), int(model["s1"])
    root = os.path.join(workdir, "data", "name")
    os.makedirs(os.path.join(root, "sub"))
    with open(os.path.join(root, "b"), "wb") as f:
        f.write(b"0123456789")
    a = os.path.join(root, "sub", "a")
    with open(a, "wb") as f:
        f.truncate(s0)
    mods = cr.real_torrentfile()
    T, U = mods["torrentfile.torrent"], mods["torrentfile.utils"]
    try:
        g0 = T.MetaFile(path=root).meta["info"]["piece length"]
        with open(a, "r+b") as f:
            f.truncate(s1)
        g1 = T.MetaFile(path=root).meta["info"]["piece length"]
    except Exception as ex:  # noqa: BLE001
        return ["C12.auto.no-exception: %s" % ex]
    want = 16384
    while (s1 + 10) / want > 1000 and want < 2 ** 24:
        want *= 2
    bad = []
    if g1 != want:
        bad.append("C12.auto.history (%r vs %r)" % (g1, want))
    if g0 > g1:
        bad.append("C12.auto.monotone-in-process")
    return bad


def _replay_config(params, model, notes, workdir):
    n = int(notes.get("strlen", params.get("n", 3)))
    sval = strs.concretize(model, "s", n)
    import refconc
    p = os.path.join(workdir, "data", "name")
    refconc.write_file(p, b"12345")
    ini = os.path.join(workdir, "t.ini")
    with open(ini, "w", encoding="utf-8") as f:
        f.write("[config]\npiece-length = %s\n" % sval)
    mods = cr.real_torrentfile()
    C, T, U = mods["torrentfile.commands"], mods["torrentfile.torrent"], mods["torrentfile.utils"]

    def outcome(kwargs):
        try:
            return ("ok", T.MetaFile(path=p, **kwargs).meta["info"]["piece length"])
        except U.PieceLengthValueError:
            return ("plve", None)
        except Exception as ex:  # noqa: BLE001
            return ("exc", type(ex).__name__)
    kw = {}
    try:
        C.parse_config_file(ini, kw)
    except Exception as ex:  # noqa: BLE001
        return ["C12.config.no-exception: %s" % ex]
    import configparser
    cp = configparser.ConfigParser()
    cp.read(ini)
    as_read = cp["config"]["piece-length"]          # what configparser itself hands over (it strips whitespace)
    a, b = outcome(kw), outcome({"piece_length": as_read})
    if "n" not in params:
        return [] if kw.get("piece_length") == as_read else ["C12.config.passes-through"]
    return [] if a == b else ["C12.config.same-verdict (%r vs %r)" % (a, b)]


def replay(params, model, notes, workdir, seed):
    if params.get("route") in ("config", "config-pass"):
        return _replay_config(params, model, notes, workdir)
    if params.get("links"):
        return _replay_auto_links(model, workdir)
    if params.get("reuse"):
        return _replay_auto_namespace(model, workdir)
    if "s1" in model and "s0" in model and "x" not in model and "s.g0" not in model and "a" not in model:
        return _replay_auto_history(model, workdir)
    if "x" in model and "s.g0" not in model:
        x = int(model["x"])
        if "s0" in model:     # metafile job
            return _replay_metafile(x, int(model["s0"]), workdir, seed)
        return conc_verdict(x)
    if "s.g0" in model:
        n = int(notes.get("strlen", params.get("n", 0)))
        s = strs.concretize(model, "s", n)
        if "s0" in model:
            return _replay_metafile(s, int(model["s0"]), workdir, seed)
        return conc_verdict(s)
    if "a" in model:
        mods = cr.real_torrentfile()
        U = mods["torrentfile.utils"]
        a, b = int(model["a"]), int(model["b"])
        ga, gb = U.get_piece_length(a), U.get_piece_length(b)
        bad = []
        for g in (ga, gb):
            if not (g >= 16384 and g & (g - 1) == 0 and g <= 2 ** 24):
                bad.append("C12.auto.range")
        if a <= b and ga > gb:
            bad.append("C12.auto.monotone")
        return bad
    return []


def _replay_metafile(arg, size, workdir, seed):
    import refconc
    p = os.path.join(workdir, "data", "name")
    refconc.write_file(p, refconc.content(("f", 0), min(size, 1 << 20), seed))
    mods = cr.real_torrentfile()
    T, U = mods["torrentfile.torrent"], mods["torrentfile.utils"]
    bad = conc_verdict(arg)
    try:
        m = T.MetaFile(path=p, piece_length=arg)
    except U.PieceLengthValueError:
        return [b for b in bad if "valid-accepted" in b]
    except Exception as ex:  # noqa: BLE001
        return ["C12.metafile.only-piece-length-error (%s)" % type(ex).__name__]
    try:
        den = int(arg)
    except ValueError:
        return ["C12.metafile.accepted-only-valid"]
    ok = (den >= 16384 and den & (den - 1) == 0) or 14 <= den <= 29
    if not ok:
        return ["C12.metafile.accepted-only-valid"]
    if m.meta["info"]["piece length"] != (2 ** den if den <= 29 else den):
        return ["C12.metafile.recorded-value"]
    return []


def validate(tier, workdir, seed):
    """Model validation of the string/int models: the repository's own test
    inputs plus boundary values through the real function and the class model."""
    runs, errs = 0, []
    counts, rep, bdig = strs.table()
    probes = ["16384", "15", "٣٢٧٦٨", "²", "½", " 16384", "+15", "1_6", "x", "00015", "33554432", "13", "26", "30", "-1"]
    fprobes = ["16384.5", "20.", ".5", "1_0.2_5", " -3.75 ", "1._5", "_1.5", "1.5_", "..", ".", "+.", "٣.٥", "1.2.3", "1 .5"]
    for p in fprobes:
        chars = [strs.SymChar(strs.classify(ch), __import__("unicodedata").decimal(ch, 0) if strs.classify(ch) in (strs.A, strs.B) else 0) for ch in p]
        try:
            m = strs.SymStr(chars, "s").__symfloat__()
            m = (m.n, m.d)
        except ValueError:
            m = None
        try:
            from fractions import Fraction
            real = Fraction(float(p))
            real = (real.numerator, real.denominator)
            if m is not None:
                g = Fraction(m[0], m[1])
                m = (g.numerator, g.denominator) if float(g) == float(p) else m
                real = (g.numerator, g.denominator) if float(g) == float(p) else real
        except ValueError:
            real = None
        runs += 1
        if (m is None) != (real is None) or (m is not None and m != real):
            errs.append("float() model disagrees with the interpreter on %r: %r vs %r" % (p, m, real))
    for p in probes:
        # class model of int()/isnumeric agrees with the interpreter on the probe
        vals = {}
        for i, ch in enumerate(p):
            k = strs.classify(ch)
            vals["s.g%d" % i] = k
            import unicodedata
            vals["s.d%d" % i] = unicodedata.decimal(ch, 0) if k in (strs.A, strs.B) else 0
        pin = cr.Pinned(vals)
        s = strs.SymStr.fresh(pin, "s", len(p))
        try:
            m = s.__symint__()
        except ValueError:
            m = None
        try:
            real = int(p)
        except ValueError:
            real = None
        runs += 1
        if m != real or bool(s.isnumeric()) != p.isnumeric() or bool(s.isdigit()) != p.isdigit() or bool(s.isdecimal()) != p.isdecimal():
            errs.append("string class model disagrees with the interpreter on %r" % p)
    # the regular-expression engine over class-strings against the interpreter's re, on every string of one
    # representative per class (plus two digits) up to length 3 (quick: 2)
    import itertools
    import re as _re
    from symx import rex
    from symx.core import Unsupported as _Uns
    alpha = [rep[k] for k in range(10)] + ["7", bdig[3]]
    pats = [r"^\s*([+-]?[0-9]+)\s*", r"[0-9]+$", r"\s*(\d+)\s*\Z", r"(?:1[4-9]|2[0-5])", r"([0-9]+)(_[0-9]+)*", r"[^0-9\s]+?(\d)"]
    for pat in pats:
        for n in (1, 2) + ((3,) if tier != "quick" else ()):
            for tup in itertools.product(alpha, repeat=n):
                txt = "".join(tup)
                chars = []
                for ch in txt:
                    k = strs.classify(ch)
                    import unicodedata
                    chars.append(strs.SymChar(k, unicodedata.decimal(ch, 0) if k in (strs.A, strs.B) else 0))
                try:
                    m = rex.Pattern(pat).match(strs.SymStr(chars, "s"))
                    got = None if m is None else (m.span(), tuple(m.span(i) for i in range(1, m._n + 1)))
                except _Uns:
                    continue
                rm = _re.compile(pat).match(txt)
                want = None if rm is None else (rm.span(), tuple(rm.span(i) for i in range(1, rm.re.groups + 1)))
                runs += 1
                if got != want:
                    errs.append("regex engine disagrees with re on %r / %r: %r vs %r" % (pat, txt, got, want))
                    break
    return runs, errs


def canaries(tier):
    return [
        ("normalize: lower bound of exponents dropped to 12", {"utils": [("if 13 < piece_length < 26:", "if 11 < piece_length < 26:")]},
         ["int.small", "str.n2"]),
        ("normalize: float power-of-two test reintroduced (needs havoc + confirmation on the real libm)",
         {"utils": [("import os\n", "import os\nimport math\n"),
                    ("and not piece_length & (piece_length - 1):", "and 2**math.log2(piece_length) == piece_length:")]},
         ["int.small"]),
        ("normalize: ValueError of int() escapes", {"utils": [("        except ValueError as err:\n            raise PieceLengthValueError(piece_length) from err",
                                                               "        except KeyError as err:\n            raise PieceLengthValueError(piece_length) from err")]},
         ["str.n1", "str.n3"]),
        ("get_piece_length: cap raised to 2^25", {"utils": [("and exp < 24:", "and exp < 25:")]}, ["auto.*"]),
    ]


if __name__ == "__main__":
    from harness import common
    raise SystemExit(common.main("harness.c12"))
