"""C13: rebuild restores the complete torrent when intact copies are available."""
import os

from symx.core import tb
from symx.loader import World

from harness import rebuildw as rw
from harness import creators as cr
from harness.creators import SHAPES
import refconc

PROPERTY = "C13"
MODULES = rw.MODULES
ASSUMPTIONS = [
    "metafile = decoded dictionary from the independent reference encoder (v1 / v2 / hybrid); A-pyben pass-through",
    "A-hash + A-generic: a decoy (same name, same size, different abstract content) never hashes like the real file",
    "search trees are a finite list of layouts (flat, two levels deep, scattered over two directories, mirroring the "
    "torrent) with an unrelated file and optionally a decoy listed before or after the real file; listing order of "
    "every directory is a solver choice; sizes are solver variables",
    "'verifies 100%' is judged as: every non-empty payload file is present at its path with exactly the described bytes "
    "(empty files carry no data; their presence is not judged); the returned count must not exceed the files present",
    "AFS semantics: copy = whole-file; no symlinks; destination initially empty",
]
WITNESSES = ["file ends exactly on a piece boundary", "piece spans two files", "decoy listed first"]


def BOUNDS(tier):
    q = tier == "quick"
    return {"versions": "v1, v2, hybrid", "shapes": "single, flat2, samedir2 (two files in one directory), samename2 (same base name in two directories), nested3",
            "sizes": "each in [0, 2P] (single: [1, 3P]), P = 16 KiB", "layouts": sorted(rw.LAYOUTS) + ["named-dir = the copy sits in a directory named like the file"],
            "decoys": "none / before / after the real file (same name and size, different bytes)",
            "outside": "partial decoys that share whole pieces with the real file (see KF-C13-partial-decoy), piece-aligned v1 "
                       "metafiles with padding entries, more files, batches of more than two metafiles"}


def jobs(tier):
    q = tier == "quick"
    out = []
    for version in (1, 2, 3):
        for shape, K in (("single", 3), ("flat2", 2), ("samedir2", 2), ("nested3", 2 if not q else 1)):
            for layout in (("flat", "two") if q else ("flat", "deep", "two", "mirror")):
                if shape == "single" and layout not in ("flat", "deep"):
                    continue
                for decoy in ("none", "before", "after"):
                    if q and decoy == "after" and shape != "flat2":
                        continue
                    if q and shape == "nested3" and (layout != "flat" or decoy != "none"):
                        continue
                    out.append(("v%d.%s.%s.decoy-%s" % (version, shape, layout, decoy), "job",
                                dict(version=version, shape=shape, P=16384, K=K, layout=layout, decoy=decoy)))
    for version in (1, 2, 3):
        for layout in ("mirror", "two"):
            out.append(("v%d.samename2.%s.decoy-none" % (version, layout), "job",
                        dict(version=version, shape="samename2", P=16384, K=2, layout=layout, decoy="none")))
        out.append(("v%d.flat2.named-dir.decoy-none" % version, "job",
                    dict(version=version, shape="flat2", P=16384, K=2, layout="named-dir", decoy="none")))
    for version in (1, 2, 3):
        out.append(("v%d.flat2.flat.name-dotdotcache" % version, "job",
                    dict(version=version, shape="flat2", P=16384, K=2, layout="flat", decoy="none", tname="..cache")))
        out.append(("v%d.flat2.flat.name-dots-and-spaces" % version, "job",
                    dict(version=version, shape="flat2", P=16384, K=1, layout="flat", decoy="none", tname="...And Justice [1988] (v2)")))
    out.append(("v1.ungrouped3.flat.decoy-none", "job", dict(version=1, shape="ungrouped3", P=16384, K=2, layout="flat", decoy="none")))
    out.append(("v1.ungrouped3.mirror.decoy-none", "job", dict(version=1, shape="ungrouped3", P=16384, K=1, layout="mirror", decoy="none")))
    for shp in cr.scheme_shapes(["flat2", "nested3"], tier):
        for version in (1, 2, 3):
            out.append(("v%d.%s.mirror.decoy-none" % (version, shp), "job",
                        dict(version=version, shape=shp, P=16384, K=1, layout="mirror", decoy="none")))
    out.append(("v1.flat2.flat.partial-decoy", "job", dict(version=1, shape="flat2", P=16384, K=2, layout="flat", decoy="partial")))
    out.append(("v1.flat2.flat.cli", "job", dict(version=1, shape="flat2", P=16384, K=2, layout="flat", decoy="none", via="cli")))
    out.append(("v1.batch2", "job_batch", dict()))
    for version in (1, 2, 3):
        for layout in ("prefix", "nested", "repeat", "spelled"):
            for via in ("assembler", "cli"):
                if q and (version + len(layout) + (via == "cli")) % 2 and layout != "prefix":
                    continue
                out.append(("v%d.flat2.%s.%s" % (version, layout, via), "job",
                            dict(version=version, shape="flat2", P=16384, K=1, layout=layout, decoy="none", via=via)))
    for version in (1, 2, 3):
        out.append(("v%d.repaired-source-then-rebuild-again" % version, "job_repaired", dict(version=version, repaired=True)))
    for version in (1, 2, 3):       # a directory torrent holding exactly one file
        out.append(("v%d.dir1.flat.decoy-none" % version, "job", dict(version=version, shape="dir1", P=16384, K=2, layout="flat", decoy="none")))
        out.append(("v%d.dir1.flat.decoy-before.cli" % version, "job", dict(version=version, shape="dir1", P=16384, K=2, layout="flat", decoy="before", via="cli")))
    out.extend(rw.matrix_rows(tier, "C13"))
    return out


def job(E, version, shape, P, K, layout, decoy, via="assembler", tname="name", _mutants=None):
    order = "reversed" if decoy == "none" else ("sorted" if decoy == "partial" else "symbolic")
    fs, sizes, meta, expected = rw.build_world(E, version, shape, P, K, layout, decoy, order=order,
                                               lo=1 if shape == "single" else 0, tname=tname)
    snap = fs.snapshot()
    w = World(fs, mutants=_mutants)
    ok, count = rw.run_rebuild(E, w, ["/t/m.torrent"], rw.SEARCH[layout], "/dest", "C13", via)
    if not ok:
        return
    rw.check_restored(E, fs, sizes, expected, count, "C13")
    ss = [sizes[r] for r in SHAPES[shape]]
    E.witness("file ends exactly on a piece boundary", ss[0] == P)
    if len(ss) > 1:
        from symx.core import conj
        E.witness("piece spans two files", conj(ss[0] > 0, ss[0] < P, ss[1] > 0))
    else:
        E.witnesses.setdefault("piece spans two files", True)
    if decoy == "before":
        E.witnesses["decoy listed first"] = True
    if decoy == "none":
        E.witnesses.setdefault("decoy listed first", True)


def job_repaired(E, version, repaired=True, _mutants=None):
    """A first rebuild finds only a damaged same-sized copy of one file; the copy is then replaced in place by the
    intact file and rebuild runs again in the same process: now every file has an intact copy and must be restored."""
    from symx.afs import AFS
    from symx.loader import BenTok
    from harness import recheck as rk
    from symx.abuf import ABuf
    P = 16384
    fs = AFS(order="reversed")
    sizes = {"name/a": E.int("s0", 1, 2 * P), "name/b": E.int("s1", 1, P)}
    E.note("shape", "flat2")
    o = E.int("dmg_off", 0, None)
    E.assume(o < sizes["name/a"])
    fs.add_content("/src/a", ABuf.of([("F", ("f", 0), 0, o), ("G", ("flip", 0), 0, 1), ("F", ("f", 0), o + 1, sizes["name/a"] - o - 1)]))
    fs.add("/src/b", ("f", 1), sizes["name/b"])
    meta = rk.ref_meta(E, version, "flat2", sizes, P, False, True)
    fs.add_token("/t/m.torrent", BenTok(meta))
    fs.mkdirs("/dest")
    w = World(fs, mutants=_mutants)
    ok, _ = rw.run_rebuild(E, w, ["/t/m.torrent"], ["/src"], "/dest", "C13.repaired.first")
    if not ok:
        return
    fs.add("/src/a", ("f", 0), sizes["name/a"])              # the intact file, at the same path, same size
    # into a fresh destination: what the first run left in /dest (possibly a full-length wrong file, which C14 forbids
    # to touch) is not the subject here
    fs.mkdirs("/dest2")
    ok, count = rw.run_rebuild(E, w, ["/t/m.torrent"], ["/src"], "/dest2", "C13.repaired")
    if not ok:
        return
    expected = {"/dest2/name/a": ("name/a", ABuf.file(("f", 0), sizes["name/a"])), "/dest2/name/b": ("name/b", ABuf.file(("f", 1), sizes["name/b"]))}
    rw.check_restored(E, fs, sizes, expected, None, "C13.repaired")
    for k in WITNESSES:
        E.witnesses.setdefault(k, True)


def job_batch(E, _mutants=None):
    """Two metafiles in one directory, rebuilt in one call."""
    from symx.afs import AFS
    from symx.loader import BenTok
    from harness import recheck as rk
    from symx.abuf import ABuf
    P = 16384
    fs = AFS(order="reversed")
    s = [E.int("s%d" % i, 1, 2 * P) for i in range(2)]
    E.note("shape", "batch")
    fs.add("/src/one.bin", ("f", 0), s[0])
    fs.add("/src/sub/two.bin", ("f", 1), s[1])
    from symx import refs
    metas = []
    for i, nm in enumerate(("one.bin", "two.bin")):
        c = ABuf.file(("f", i), s[i])
        info = {"length": s[i], "name": nm, "piece length": P, "pieces": refs.v1_pieces(c, P)}
        fs.add_token("/t/m%d.torrent" % i, BenTok({"info": info}))
    fs.add("/t/readme.txt", ("x", 0), 5)
    fs.mkdirs("/dest")
    w = World(fs, mutants=_mutants)
    ok, count = rw.run_rebuild(E, w, ["/t"], ["/src"], "/dest", "C13.batch")
    if not ok:
        return
    for i, nm in enumerate(("one.bin", "two.bin")):
        node = fs.files.get("/dest/" + nm)
        if E.check(node is not None, "C13.batch.file-present", nm):
            E.check(node.content == ABuf.file(("f", i), s[i]), "C13.batch.file-content", nm)
    E.check(count == 2, "C13.batch.count", "counted %r" % (count,))
    for k in WITNESSES:
        E.witnesses.setdefault(k, True)


def _replay_repaired(params, model, workdir, seed):
    import io
    import contextlib
    P = 16384
    s0, s1 = int(model["s0"]), int(model["s1"])
    a, b = refconc.content(("f", 0), s0, seed), refconc.content(("f", 1), s1, seed)
    refconc.write_file(workdir + "/src/a", refconc.flip(a, int(model.get("dmg_off", 0))))
    refconc.write_file(workdir + "/src/b", b)
    refconc.write_file(workdir + "/t/m.torrent", refconc.bencode(refconc.build_meta([(["a"], a), (["b"], b)], P, params["version"])))
    os.makedirs(workdir + "/dest")
    mods = cr.real_torrentfile()
    try:
        with contextlib.redirect_stdout(io.StringIO()):
            mods["torrentfile.rebuild"].Assembler([workdir + "/t/m.torrent"], [workdir + "/src"], workdir + "/dest").assemble_torrents()
            refconc.write_file(workdir + "/src/a", a)
            os.makedirs(workdir + "/dest2")
            mods["torrentfile.rebuild"].Assembler([workdir + "/t/m.torrent"], [workdir + "/src"], workdir + "/dest2").assemble_torrents()
    except Exception as ex:  # noqa: BLE001
        return ["C13.repaired.no-exception: %s: %s" % (type(ex).__name__, ex)]
    bad = []
    for rel, d in (("a", a), ("b", b)):
        full = workdir + "/dest2/name/" + rel
        if not os.path.isfile(full):
            bad.append("C13.repaired.file-present:%s" % rel)
        elif open(full, "rb").read() != d:
            bad.append("C13.repaired.file-content:%s" % rel)
    return bad


def replay(params, model, notes, workdir, seed):
    if params.get("repaired"):
        return _replay_repaired(params, model, workdir, seed)
    if "shape" not in params:
        return _replay_batch(model, workdir, seed)
    # listing order of the decoy directory is part of the model: realise it by naming (A-decoy / zz-decoy sort
    # before / after the real file; the real os.listdir order is made to follow the model's permutation)
    sizes, data, expected = rw.conc_world(params, model, workdir, seed)
    import itertools
    real_listdir = os.listdir

    def listdir(p="."):
        names = sorted(real_listdir(p))
        ap = os.path.abspath(p)
        mp = ap[len(workdir):] if ap.startswith(workdir) else ap
        for k, v in model.items():
            if k.startswith("perm:%s:" % mp) and len(names) >= 2:
                from symx.afs import listing_orders
                perms = listing_orders(len(names))
                if int(v) < len(perms):
                    return [names[i] for i in perms[int(v)]]
        return names if params.get("decoy") == "partial" else names[::-1]
    os.listdir = listdir
    try:
        try:
            count = rw.conc_rebuild(workdir, params.get("layout", "flat"), params.get("via", "assembler"))
        except Exception as ex:  # noqa: BLE001
            return ["C13.no-exception: %s: %s" % (type(ex).__name__, ex)]
    finally:
        os.listdir = real_listdir
    bad = []
    present = 0
    for dpath, d in expected.items():
        full = workdir + dpath
        if os.path.isfile(full):
            present += 1
        if not d:
            continue
        if not os.path.isfile(full):
            bad.append("C13.file-present:%s" % dpath)
        elif open(full, "rb").read() != d:
            bad.append("C13.file-content:%s" % dpath)
    if count is not None and count > present:
        bad.append("C13.count-vs-present (%r > %d)" % (count, present))
    return bad


def _replay_batch(model, workdir, seed):
    import io
    import contextlib
    P = 16384
    datas = [refconc.content(("f", i), int(model["s%d" % i]), seed) for i in range(2)]
    refconc.write_file(workdir + "/src/one.bin", datas[0])
    refconc.write_file(workdir + "/src/sub/two.bin", datas[1])
    for i, nm in enumerate(("one.bin", "two.bin")):
        meta = refconc.build_meta([([nm], datas[i])], P, 1, name=nm, single=True)
        refconc.write_file(workdir + "/t/m%d.torrent" % i, refconc.bencode(meta))
    refconc.write_file(workdir + "/t/readme.txt", b"hello")
    os.makedirs(workdir + "/dest")
    mods = cr.real_torrentfile()
    try:
        with contextlib.redirect_stdout(io.StringIO()):
            count = mods["torrentfile.rebuild"].Assembler([workdir + "/t"], [workdir + "/src"], workdir + "/dest").assemble_torrents()
    except Exception as ex:  # noqa: BLE001
        return ["C13.batch.no-exception: %s" % ex]
    bad = []
    for i, nm in enumerate(("one.bin", "two.bin")):
        p = workdir + "/dest/" + nm
        if not os.path.isfile(p) or open(p, "rb").read() != datas[i]:
            bad.append("C13.batch.file-present/content:%s" % nm)
    if count != 2:
        bad.append("C13.batch.count (%r)" % (count,))
    return bad


def validate(tier, workdir, seed):
    """Model validation: pinned sizes through the model (abstract filesystem) and through the unmodified package on
    real files; the destination trees (paths and bytes) and the returned counts must agree."""
    import random
    from symx.abuf import concretize_buf
    rnd = random.Random(seed + 1313)
    runs, errs = 0, []
    cases = [(1, "flat2", "flat", "none"), (1, "nested3", "two", "before"), (2, "flat2", "mirror", "none"), (3, "samedir2", "flat", "after"),
             (2, "single", "deep", "none"), (1, "samename2", "mirror", "none"), (3, "nested3", "named-dir", "none")]
    if tier == "quick":
        cases = cases[:4]
    P = 16384
    real_listdir = os.listdir
    for version, shape, layout, decoy in cases:
        n = len(SHAPES[shape])
        vals = {"s%d" % i: rnd.choice([1, P - 1, P, P + 1, 2 * P, rnd.randrange(1, 2 * P)]) for i in range(n)}
        pin = cr.Pinned(vals)
        fs, sizes, meta, expected = rw.build_world(pin, version, shape, P, 2, layout, decoy, order="sorted", lo=1 if shape == "single" else 0)
        w = World(fs)
        try:
            count_m = w.mod("rebuild").Assembler(["/t/m.torrent"], rw.SEARCH[layout], "/dest").assemble_torrents()
        except Exception as ex:  # noqa: BLE001
            count_m = "EXC " + type(ex).__name__
        files = {cr.fid_of(shape, r): refconc.content(cr.fid_of(shape, r), vals["s%d" % i], seed) for i, r in enumerate(SHAPES[shape])}
        files[("decoy", 0)] = refconc.content(("decoy", 0), vals["s0"], seed)
        files[("u", 0)] = b"u" * 123
        model_tree = {p[len("/dest/"):]: concretize_buf(nd.content, files) for p, nd in fs.files.items() if p.startswith("/dest/")}
        d = os.path.join(workdir, "val%d" % runs)
        os.makedirs(d)
        params = dict(version=version, shape=shape, P=P, layout=layout, decoy=decoy)
        rw.conc_world(params, vals, d, seed)
        os.listdir = lambda p=".": sorted(real_listdir(p))
        try:
            try:
                count_r = rw.conc_rebuild(d, layout)
            except Exception as ex:  # noqa: BLE001
                count_r = "EXC " + type(ex).__name__
        finally:
            os.listdir = real_listdir
        real_tree = {k: v[1] for k, v in refconc.snapshot(d + "/dest").items() if v[0] == "f"}
        runs += 1
        if model_tree != real_tree or count_m != count_r:
            errs.append("model != real: v%d %s %s decoy=%s %r: model count %r files %r, real count %r files %r"
                        % (version, shape, layout, decoy, vals, count_m, sorted(model_tree), count_r, sorted(real_tree)))
    return runs, errs


def canaries(tier):
    return [
        ("_map_pieces: file index not advanced when a file ends on a piece boundary", {"rebuild": [(
            "                    target = 0\n                    if remainder == 0:\n                        file_index += 1\n", "                    target = 0\n")]},
         ["v1.flat2.flat.decoy-none", "v1.samedir2.*decoy-none"]),
        ("_find_matches: verdict of the first same-sized candidate returned", {"rebuild": [(
            "                copypath(loc, dest_path)\n                return val\n        return False", "                copypath(loc, dest_path)\n            return val\n        return False")]},
         ["v1.flat2.*.decoy-before", "v1.single.*decoy-before"]),
        ("_match_v2: stops at the first same-sized candidate", {"rebuild": [(
            "                        self.cb(path, dest_path, self.num_pieces)\n                        break", "                        self.cb(path, dest_path, self.num_pieces)\n                    break")]},
         ["v2.flat2.*.decoy-before", "v3.single.*decoy-before"]),
    ]


if __name__ == "__main__":
    from harness import common
    raise SystemExit(common.main("harness.c13"))
