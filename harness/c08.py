"""C08: the info-hash depends only on payload, piece length, version and info options."""
import os

from symx.core import tb, disj
from symx.afs import AFS
from symx.loader import World, ben_equal
from symx.ostr import OStr

from harness import creators as cr
from harness.creators import SHAPES
import refconc

PROPERTY = "C08"
MODULES = ["torrent", "utils", "hasher", "commands", "cli"]
ASSUMPTIONS = [
    "non-interference harness: one path creates the same payload twice with two independent copies of every irrelevant "
    "input (clock, listing permutation, location, path spelling, cwd, trackers/seeds/outfile, progress mode) and equal "
    "relevant inputs; the two info dictionaries must be deep- and order-equal",
    "path spellings are a finite grammar (absolute, relative, ./x, x/, x//, d/../x, x/., doubled separator, other cwd, "
    "copy at another location); POSIX path semantics of the AFS; no symlinks",
    "A-hash model; sizes, clocks and listing order are solver variables; progress bars stubbed (which constructor "
    "arguments flow where is exercised, not the drawing code)",
]
WITNESSES = ["clocks differ", "listing orders differ"]

# (label, cwd, argument, payload base dir) ; payload lives at <base>/name
SPELL_DIR = [
    ("abs", "/cwd", "/data/name", "/data"),
    ("rel", "/data", "name", "/data"),
    ("dot", "/data", "./name", "/data"),
    ("trail", "/data", "name/", "/data"),
    ("dbltrail", "/data", "name//", "/data"),
    ("dotdot", "/data", "sub/../name", "/data"),
    ("traildot", "/data", "name/.", "/data"),
    ("dblsep", "/cwd", "/data//name", "/data"),
    ("othercwd", "/cwd/deep", "../../data/name", "/data"),
    ("copy", "/cwd", "/mnt/x/y/name", "/mnt/x/y"),
    ("cwd-is-root", "/data/name", ".", "/data"),
    ("cwd-inside.dotdot", "/data/name/d", "..", "/data"),          # only for shapes with the sub-directory d
    ("cwd-inside.abs", "/data/name/d", "/data/name", "/data"),
]
SPELL_FILE = [s for s in SPELL_DIR if s[0] in ("abs", "rel", "dot", "dotdot", "dblsep", "othercwd", "copy")]
# nested3 = name/a, name/d/b, name/d/e/c : with the working directory at name/d the file name/a sorts differently when
# paths are taken relative to the working directory ('../a' < 'b')


def BOUNDS(tier):
    q = tier == "quick"
    return {"creators": "TorrentFile, TorrentAssembler v2/hybrid" + ("" if q else ", TorrentFileV2, TorrentFileHybrid"),
            "shapes": "single, flat2, nested3, case2 (names equal after case folding)", "sizes": "each in [0, K*P], K=2 (nested3: 1), P=16 KiB",
            "spellings": [s[0] for s in SPELL_DIR], "progress": "0/1/2 rotated over the spellings",
            "outside": "symlinks, Windows separators, other path grammars, more files"}


def jobs(tier):
    q = tier == "quick"
    out = []
    for which in ["1", "2a", "3a"] + ([] if q else ["2c", "3c"]):
        for shape, K in (("single", 2), ("flat2", 2), ("nested3", 1), ("case2", 1), ("around3", 1)):
            spells = SPELL_FILE if shape == "single" else SPELL_DIR
            for i, sp in enumerate(spells):
                if sp[0].startswith("cwd-inside") and shape not in ("nested3", "around3"):
                    continue
                if shape == "around3" and not sp[0].startswith("cwd-inside") and sp[0] != "rel":
                    continue
                if q and shape == "nested3" and sp[0] not in ("rel", "traildot", "copy", "cwd-is-root", "cwd-inside.dotdot", "cwd-inside.abs"):
                    continue
                if shape == "case2" and sp[0] not in ("rel", "copy"):
                    continue
                if q and which != "1" and shape == "flat2" and sp[0] in ("dbltrail", "dblsep", "dot"):
                    continue
                out.append(("%s.%s.%s" % (which, shape, sp[0]), "job", dict(which=which, shape=shape, K=K, spell=i)))
    # the command line route: output location outside the payload, inside it (not yet existing), as a directory, omitted
    for mv in ("1", "2", "3"):
        for k, outv in enumerate(OUT_VARIANTS):
            if q and (int(mv) + k) % 2:
                continue
            out.append(("cli.v%s.out-%d" % (mv, k), "job_cli_out", dict(mv=mv, out=k)))
    for which in ["1", "2a", "3a"] + ([] if q else ["2c", "3c"]):
        out.append(("hardlinked-names.%s" % which, "job_special", dict(which=which, kind="hardlink")))
        out.append(("tilde-root.%s" % which, "job_special", dict(which=which, kind="tilde")))
    for which in ["1", "2a", "3a"]:
        out.append(("history-plen.%s" % which, "job_history_plen", dict(which=which, P1=32768, P2=16384)))
    for which in ["1", "2a", "3a"]:
        out.append(("history.%s.add-below-root" % which, "job_history", dict(which=which, mut="add")))
        out.append(("history.%s.grow-in-place" % which, "job_history", dict(which=which, mut="grow")))
    return out


# (label, -o value or None, working directory)
OUT_VARIANTS = [("inside-subdir", "/data/name/d/x.torrent", "/cwd"), ("inside-root", "/data/name/name.torrent", "/cwd"),
                ("dir-form", "/out/", "/cwd"), ("omitted-cwd-elsewhere", None, "/out"), ("relative", "../out/y.torrent", "/cwd")]


def job_cli_out(E, mv, out, _mutants=None):
    """`torrentfile create` with different output locations: the info dictionary must equal the one obtained with the
    metafile written well away from the payload."""
    P = 16384
    label, outv, cwd = OUT_VARIANTS[out]
    infos = []
    for run, (o, c) in enumerate((("/out/ref.torrent", "/cwd"), (outv, cwd))):
        fs = AFS(cwd=c)
        s0 = E.int("s0", 1, 2 * P)
        s1 = E.int("s1", 0, P)
        fs.add("/data/name/a", ("f", 0), s0)
        fs.add("/data/name/d/b", ("f", 1), s1)
        fs.mkdirs("/out")
        fs.mkdirs("/cwd")
        w = World(fs, mutants=_mutants)
        argv = ["create", "--prog", "0", "--meta-version", mv, "--piece-length", "14"] + (["-o", o] if o else []) + ["/data/name"]
        try:
            infos.append(w.mod("cli").execute(argv).meta["info"])
        except SystemExit as ex:
            E.fail("C08.cli.parser-accepts", str(ex))
            return
        except Exception as ex:  # noqa: BLE001
            E.fail("C08.cli.no-exception", "%r: %s: %s" % (argv, type(ex).__name__, ex))
            return
    E.check(ben_equal(infos[0], infos[1]), "C08.cli.info-equal",
            "output location %s (-o %r from %s) changes the info dictionary" % (label, outv, cwd))
    for k in WITNESSES:
        E.witnesses.setdefault(k, True)


def job_special(E, which, kind, _mutants=None):
    """Two further things the info dictionary must not depend on: whether two names of the payload share one inode
    (hard links) or are independent copies, and whether a payload directory called '~' is given as '~' or by its
    absolute path."""
    P = 16384
    s0 = E.int("s0", 1, 2 * P)
    s1 = E.int("s1", 0, P)
    infos = []
    for run in (0, 1):
        if kind == "hardlink":
            fs = AFS(cwd="/cwd", order="reversed" if run else "sorted")
            fs.add("/data/name/a", ("f", 0), s0)
            if run:
                fs.mkdirs("/data/name/d")
                fs.link("/data/name/a", "/data/name/d/b")
                del fs.log[:]
            else:
                fs.add("/data/name/d/b", ("f", 0), s0)         # an independent copy with the same bytes
            fs.add("/data/name/c", ("f", 1), s1)
            arg = "/data/name"
        else:
            fs = AFS(cwd="/data" if run else "/cwd")
            fs.add("/data/~/a", ("f", 0), s0)
            fs.add("/data/~/d/b", ("f", 1), s1)
            fs.add(fs.home + "/a", ("h", 0), 5)                 # what '~' would be if it were expanded
            arg = "~" if run else "/data/~"
        w = World(fs, mutants=_mutants)
        try:
            infos.append(cr.create(w, which, path=arg, piece_length=P, progress=0).meta["info"])
        except Exception as ex:  # noqa: BLE001
            E.fail("C08.no-exception", "%s: %s: %s" % (kind, type(ex).__name__, ex))
            return
    E.check(ben_equal(infos[0], infos[1]), "C08.special.info-equal",
            {"hardlink": "two names on one inode give another info dictionary than two independent copies",
             "tilde": "a directory called '~' gives another info dictionary when it is given as '~'"}[kind])
    for k in WITNESSES:
        E.witnesses.setdefault(k, True)


def job_history_plen(E, which, P1, P2, _mutants=None):
    """Two creations with different piece lengths in one process: the second equals what a fresh process gives."""
    from harness import c09
    fs = AFS(order="reversed")
    t0 = E.int("t0", 2 * P1 + 1, 3 * P1)          # three pieces at P1
    fs.add("/first/other/big", ("g", 0), t0)
    s0 = E.int("s0", 1, 6 * P2)
    s1 = E.int("s1", 0, P2)
    fs.add("/data/name/a", ("f", 0), s0)
    fs.add("/data/name/d/b", ("f", 1), s1)
    E.note("shape", "plen")
    w = World(fs, mutants=_mutants)
    try:
        cr.create(w, which, path="/first/other", piece_length=P1, progress=0)
        got = cr.create(w, which, path="/data/name", piece_length=P2, progress=0).meta["info"]
        fresh = cr.create(World(fs.clone(), mutants=_mutants), which, path="/data/name", piece_length=P2, progress=0).meta["info"]
    except Exception as ex:  # noqa: BLE001
        E.fail("C08.no-exception", "%s: %s" % (type(ex).__name__, ex))
        return
    E.check(ben_equal(got, fresh), "C08.history-plen.info-equal", "after a creation with piece length %d the info dictionary differs from a fresh process's" % P1)
    for k in WITNESSES:
        E.witnesses.setdefault(k, True)


def job_history(E, which, mut, _mutants=None):
    """The info dictionary depends on the payload as it is now, not on an earlier run of the same process."""
    from harness import c09
    P = 16384
    fs, sizes = c09.base_fs(E, P)
    w = World(fs, mutants=_mutants)
    c09.do_create(E, w, which, P, "1")
    sizes2 = c09.mutate(E, fs, sizes, mut, P)
    got = c09.do_create(E, w, which, P, "2")
    fresh = c09.do_create(E, World(fs.clone(), mutants=_mutants), which, P, "fresh")
    E.check(c09.same(got, fresh), "C08.history.info-equal", "a second run in the same process gives %s, a fresh process %s" % (c09._brief(got), c09._brief(fresh)))
    for k in WITNESSES:
        E.witnesses.setdefault(k, True)


def build(E, shape, sizes, base, cwd, order, tag):
    fs = AFS(cwd=cwd, order=order, tag=tag)
    for i, r in enumerate(SHAPES[shape]):
        fs.add(base + "/" + r, ("f", i), sizes[r])
    fs.mkdirs("/data/sub")
    fs.mkdirs("/cwd/deep")
    fs.mkdirs("/out")
    return fs


def job(E, which, shape, K, spell, _mutants=None):
    P = 16384
    rels = SHAPES[shape]
    sizes = {r: E.int("s%d" % i, 1 if shape == "single" else 0, K * P) for i, r in enumerate(rels)}
    E.note("shape", shape)
    if shape != "single":
        E.assume(disj(*[s > 0 for s in sizes.values()]))
    label, cwd, arg, base = (SPELL_FILE if shape == "single" else SPELL_DIR)[spell]
    t1 = E.int("clock1", 0, 2 ** 40)
    t2 = E.int("clock2", 0, 2 ** 40)
    info_opts = {}
    if spell % 2:
        info_opts = dict(comment=OStr("o.comment", nonempty=True), source=OStr("o.source", nonempty=True), private=True)
    # run 1: canonical
    fs1 = build(E, shape, sizes, "/data", "/cwd", "sorted", "A")
    w1 = World(fs1, clock=t1, mutants=_mutants)
    # run 2: variant
    fs2 = build(E, shape, sizes, base, cwd, "symbolic" if len(rels) <= 3 else "reversed", "B")
    w2 = World(fs2, clock=t2, mutants=_mutants)
    try:
        m1 = cr.create(w1, which, path="/data/name", piece_length=P, progress=0, **info_opts)
        o1, meta1 = m1.write("/out/one.torrent")
        m2 = cr.create(w2, which, path=arg, piece_length=P, progress=spell % 3,
                       announce=[OStr("o.tr0", nonempty=True), OStr("o.tr1", nonempty=True)],
                       url_list=[OStr("o.ws", nonempty=True)], httpseeds=[OStr("o.hs", nonempty=True)], **info_opts)
        o2, meta2 = m2.write("/out/sub/")  if False else m2.write("/out/two.torrent")
    except Exception as ex:  # noqa: BLE001
        E.fail("C08.no-exception", "%s: %s" % (type(ex).__name__, ex))
        return
    E.check(ben_equal(meta1["info"], meta2["info"]), "C08.info-equal",
            "info differs for spelling %s (%r from cwd %s): name %r vs %r" % (label, arg, cwd, meta1["info"].get("name"), meta2["info"].get("name")))
    strip = ("creation date", "announce", "announce-list", "url-list", "httpseeds")
    a = {k: v for k, v in meta1.items() if k not in strip}
    b = {k: v for k, v in meta2.items() if k not in strip}
    E.check(ben_equal(a, b), "C08.meta-equal-modulo-date-and-trackers")
    E.check(meta1["info"].get("name") == "name", "C08.name-is-basename", "info.name is %r" % (meta1["info"].get("name"),))
    E.witness("clocks differ", t1 != t2)
    if len(rels) > 1 and any(k.startswith("permB") for k in E.inputs):
        E.witness("listing orders differ", True)
    if len(rels) == 1:
        E.witnesses.setdefault("listing orders differ", True)


def replay(params, model, notes, workdir, seed):
    import io
    import contextlib
    if "out" in params:
        return _replay_cli_out(params, model, workdir, seed)
    if "kind" in params:
        return _replay_special(params, model, workdir, seed)
    if "P1" in params:
        return _replay_plen(params, model, workdir, seed)
    if "mut" in params:
        from harness import c09
        bad = c09.replay(dict(which1=params["which"], which2=params["which"], mut=params["mut"], P1=16384, P2=16384), model, notes, workdir, seed)
        return [b.replace("C09.create-after-create", "C08.history.info-equal") for b in bad]
    which, shape, spell = params["which"], params["shape"], params["spell"]
    label, cwd, arg, base = (SPELL_FILE if shape == "single" else SPELL_DIR)[spell]
    sizes = cr.concrete_sizes(shape, model)
    root1 = os.path.join(workdir, "r1")
    root2 = os.path.join(workdir, "r2")
    for root, b in ((root1, "/data"), (root2, base)):
        for i, r in enumerate(SHAPES[shape]):
            refconc.write_file(root + b + "/" + r, refconc.content(("f", i), sizes[r], seed))
        for d in ("/data/sub", "/cwd/deep", "/out"):
            os.makedirs(root + d, exist_ok=True)
    info_opts = dict(comment="c", source="s", private=True) if spell % 2 else {}
    old = os.getcwd()
    import itertools
    real_listdir = os.listdir
    state = {"root": None, "perm": False}

    def listdir(p="."):
        names = sorted(real_listdir(p))
        if not state["perm"] or len(names) < 2:
            return names
        ap = os.path.abspath(p)
        mp = ap[len(state["root"]):] if ap.startswith(state["root"]) else ap
        for k, v in model.items():
            if k.startswith("permB:%s:" % mp):
                from symx.afs import listing_orders
                perms = listing_orders(len(names))
                if int(v) < len(perms):
                    return [names[i] for i in perms[int(v)]]
        return names[::-1]

    class _Clock:
        def __init__(self, v):
            self.v = v

        def now(self, tz=None):
            return self

        def timestamp(self, x=None):
            return self.v
    mods = cr.real_torrentfile()
    T = mods["torrentfile.torrent"]
    real_dt = T.datetime
    os.listdir = listdir
    try:
        os.chdir(root1 + "/cwd")
        state.update(root=root1, perm=False)
        T.datetime = _Clock(int(model.get("clock1", 0)))
        with contextlib.redirect_stdout(io.StringIO()):
            cls, mv = cr.CLS[which]
            kw1 = dict(path=root1 + "/data/name", piece_length=16384, progress=0, **info_opts)
            if mv:
                kw1["meta_version"] = mv
            m1 = getattr(T, cls)(**kw1)
        os.chdir(root2 + cwd)
        state.update(root=root2, perm=True)
        T.datetime = _Clock(int(model.get("clock2", 0)))
        a2 = (root2 + arg) if arg.startswith("/") else arg
        with contextlib.redirect_stdout(io.StringIO()):
            kw2 = dict(path=a2, piece_length=16384, progress=0, announce=["http://a", "http://b"],
                       url_list=["http://w"], httpseeds=["http://h"], **info_opts)
            if mv:
                kw2["meta_version"] = mv
            m2 = getattr(T, cls)(**kw2)
    except Exception as ex:  # noqa: BLE001
        return ["C08.no-exception: %s: %s" % (type(ex).__name__, ex)]
    finally:
        os.listdir = real_listdir
        T.datetime = real_dt
        os.chdir(old)
    i1 = cr.norm_real(m1.sort_meta()["info"])
    i2 = cr.norm_real(m2.sort_meta()["info"])
    bad = []
    if list(i1.items()) != list(i2.items()):
        bad.append("C08.info-equal (name %r vs %r)" % (i1.get("name"), i2.get("name")))
    return bad


def _replay_cli_out(params, model, workdir, seed):
    import io
    import contextlib
    label, outv, cwd = OUT_VARIANTS[params["out"]]
    infos = []
    old = os.getcwd()
    for run, (o, c) in enumerate((("/out/ref.torrent", "/cwd"), (outv, cwd))):
        root = os.path.join(workdir, "r%d" % run)
        refconc.write_file(root + "/data/name/a", refconc.content(("f", 0), int(model["s0"]), seed))
        refconc.write_file(root + "/data/name/d/b", refconc.content(("f", 1), int(model["s1"]), seed))
        for d in ("/out", "/cwd"):
            os.makedirs(root + d, exist_ok=True)
        if o is not None and o.startswith("/"):
            o = root + o
        argv = ["create", "--prog", "0", "--meta-version", params["mv"], "--piece-length", "14"] + (["-o", o] if o else []) + [root + "/data/name"]
        mods = cr.real_torrentfile()
        import torrentfile.cli as cli
        os.chdir(root + c)
        try:
            with contextlib.redirect_stdout(io.StringIO()):
                infos.append(cr.norm_real(cli.execute(argv).meta["info"]))
        except BaseException as ex:  # noqa: BLE001
            return ["C08.cli.no-exception: %s: %s" % (type(ex).__name__, ex)]
        finally:
            os.chdir(old)
    return [] if list(infos[0].items()) == list(infos[1].items()) else ["C08.cli.info-equal"]


def _replay_special(params, model, workdir, seed):
    import io
    import contextlib
    kind, which = params["kind"], params["which"]
    s0, s1 = int(model["s0"]), int(model["s1"])
    a, c = refconc.content(("f", 0), s0, seed), refconc.content(("f", 1), s1, seed)
    infos = []
    old = os.getcwd()
    oldhome = os.environ.get("HOME")
    for run in (0, 1):
        root = os.path.join(workdir, "r%d" % run)
        os.makedirs(root + "/cwd")
        if kind == "hardlink":
            refconc.write_file(root + "/data/name/a", a)
            os.makedirs(root + "/data/name/d")
            if run:
                os.link(root + "/data/name/a", root + "/data/name/d/b")
            else:
                refconc.write_file(root + "/data/name/d/b", a)
            refconc.write_file(root + "/data/name/c", c)
            arg, cwd = root + "/data/name", root + "/cwd"
        else:
            refconc.write_file(root + "/data/~/a", a)
            refconc.write_file(root + "/data/~/d/b", c)
            refconc.write_file(root + "/home/a", b"home!")
            os.environ["HOME"] = root + "/home"
            arg, cwd = ("~", root + "/data") if run else (root + "/data/~", root + "/cwd")
        os.chdir(cwd)
        try:
            infos.append(cr.norm_real(cr.real_create(which, path=arg, piece_length=16384).sort_meta()["info"]))
        except Exception as ex:  # noqa: BLE001
            return ["C08.no-exception: %s: %s" % (type(ex).__name__, ex)]
        finally:
            os.chdir(old)
            if oldhome is not None:
                os.environ["HOME"] = oldhome
    return [] if list(infos[0].items()) == list(infos[1].items()) else ["C08.special.info-equal"]


def _replay_plen(params, model, workdir, seed):
    import subprocess
    import json
    import sys
    refconc.write_file(workdir + "/first/other/big", refconc.content(("g", 0), int(model["t0"]), seed))
    refconc.write_file(workdir + "/data/name/a", refconc.content(("f", 0), int(model["s0"]), seed))
    refconc.write_file(workdir + "/data/name/d/b", refconc.content(("f", 1), int(model["s1"]), seed))
    mods = cr.real_torrentfile()
    T = mods["torrentfile.torrent"]
    cls, mv = cr.CLS[params["which"]]
    import io
    import contextlib
    outs = []
    for seq in ((("first/other", params["P1"]), ("data/name", params["P2"])), (("data/name", params["P2"]),)):
        mods = cr.real_torrentfile()
        T = mods["torrentfile.torrent"]
        try:
            with contextlib.redirect_stdout(io.StringIO()):
                for pth, P in seq:
                    kw = dict(path=os.path.join(workdir, pth), piece_length=P, progress=0)
                    if mv is not None:
                        kw["meta_version"] = mv
                    t = getattr(T, cls)(**kw)
        except Exception as ex:  # noqa: BLE001
            return ["C08.no-exception: %s: %s" % (type(ex).__name__, ex)]
        outs.append(cr.norm_real(t.sort_meta()["info"]))
    return [] if list(outs[0].items()) == list(outs[1].items()) else ["C08.history-plen.info-equal"]


def canaries(tier):
    return [
        ("utils: file list no longer sorted", {"utils": [("    return total, sorted(filelist)", "    return total, filelist")]},
         ["1.flat2.rel", "1.nested3.*"]),
        ("torrent v2/hybrid: directory entries not sorted", {"torrent": [(
            "            for name in sorted(os.listdir(path)):\n                tree[name]", "            for name in os.listdir(path):\n                tree[name]")]},
         ["3a.flat2.rel", "2a.nested3.rel"]),
        ("MetaFile: creation date stored inside info", {"torrent": [(
            "        self.meta[\"info\"][\"piece length\"] = self.piece_length\n",
            "        self.meta[\"info\"][\"piece length\"] = self.piece_length\n        self.meta[\"info\"][\"created\"] = self.meta[\"creation date\"]\n")]},
         ["1.single.abs", "2a.flat2.rel"]),
    ]


if __name__ == "__main__":
    from harness import common
    raise SystemExit(common.main("harness.c08"))
