"""C16: the recheck percentage is the exact share of bytes in verifying pieces."""
import itertools

from harness import recheck as rk
from harness.recheck import job_recheck  # noqa: F401

PROPERTY = "C16"
MODULES = rk.MODULES
ASSUMPTIONS = [
    "A-hash + A-generic (a piece verifies iff the on-disk bytes, absent data read as zeros, equal the described bytes)",
    "reference piece table: v1 = pieces of the concatenated expected stream, v2/hybrid = per-file pieces",
    "the percentage is compared as an exact rational (cross-multiplied integers); the IEEE gap is lemma L-pct's business",
    "piece-by-piece verdicts are compared only where the checker's sequence of judged pieces lines up with the table; "
    "the statement itself is about the reported number",
    "AFS: regular files, no short reads; progress bars and logging stubbed",
]
WITNESSES = ["empty file", "file ends on piece boundary", "file one byte past boundary"]


def BOUNDS(tier):
    q = tier == "quick"
    return {"versions": "v1, v2, hybrid", "shapes": "single, flat2, nested3",
            "damage": ("intact, or one damaged file (flip / trunc / missing)" if q else
                       "every assignment of {intact, flip, trunc, missing} to up to 3 files"),
            "sizes": "each in [0, K*P], K=2 (3 for single)", "piece_length": "16 KiB (single: also 32 KiB)",
            "outside": "more files/pieces, other piece lengths; files longer on disk than described"}


def jobs(tier):
    from harness.c04 import damage_sets
    out = []
    for version in (1, 2, 3):
        for shape, K in [("single", 3), ("flat2", 2), ("nested3", 2)]:
            n = len(rk.SHAPES[shape])
            for P in ((16384,) if shape != "single" else (16384, 32768)):
                for dmg in [["intact"] * n] + list(damage_sets(n, tier)):
                    if shape == "single" and dmg[0] == "missing":
                        continue
                    label = "v%d.%s.P%d.%s" % (version, shape, P, "-".join(k[0] for k in dmg))
                    out.append((label, "job_recheck", dict(prop="C16", version=version, shape=shape, P=P, K=K, dmg=dmg, source="ref")))
    return out


def validate(tier, workdir, seed):
    return rk.validate("C16", tier, workdir, seed)


def replay(params, model, notes, workdir, seed):
    return rk.conc_recheck("C16", params, model, workdir, seed)


def canaries(tier):
    return [
        ("Checker: percentage over total instead of consumed, matched counted twice for the last piece", {"recheck": [(
            "            if chunk == piece:\n                matching += size\n                matched += size",
            "            if chunk == piece:\n                matching += size\n                matched += self.piece_length")]},
         ["v1.flat2.*", "v2.single.*"]),
        ("HashChecker.advance: last short piece counted as a full piece", {"recheck": [(
            "        else:\n            size = self.length\n            self.length -= self.length\n        return piece, size",
            "        else:\n            size = self.piece_length\n            self.length -= self.length\n        return piece, size")]},
         ["v2.flat2.*", "v3.single.*"]),
    ]


if __name__ == "__main__":
    from harness import common
    raise SystemExit(common.main("harness.c16"))
