"""C16: the recheck percentage is the exact share of bytes in verifying pieces."""
import itertools

from harness import recheck as rk
from harness.recheck import job_recheck  # noqa: F401

PROPERTY = "C16"
MODULES = rk.MODULES
ASSUMPTIONS = [
    "A-hash + A-generic (a piece verifies iff the on-disk bytes, absent data read as zeros, equal the described bytes)",
    "reference piece table: v1 = pieces of the concatenated expected stream, v2/hybrid = per-file pieces",
    "the percentage is compared as an exact rational (cross-multiplied integers); the IEEE gap is lemma L-pct's business",
    "piece-by-piece verdicts are compared only where the checker's sequence of judged pieces lines up with the table; "
    "the statement itself is about the reported number",
    "AFS: regular files, no short reads; progress bars and logging stubbed",
]
WITNESSES = ["empty file", "file ends on piece boundary", "file one byte past boundary"]


def BOUNDS(tier):
    q = tier == "quick"
    return {"versions": "v1, v2, hybrid", "shapes": "single, flat2, nested3",
            "damage": ("intact, or one damaged file (flip / trunc / missing)" if q else
                       "every assignment of {intact, flip, trunc, missing} to up to 3 files"),
            "sizes": "each in [0, K*P], K=2 (3 for single)", "piece_length": "16 KiB (single: also 32 KiB)",
            "outside": "more files/pieces, other piece lengths; files longer on disk than described"}


def jobs(tier):
    from harness.c04 import damage_sets
    out = []
    for version in (1, 2, 3):
        for shape, K in [("single", 3), ("flat2", 2), ("nested3", 2)]:
            n = len(rk.SHAPES[shape])
            for P in ((16384,) if shape != "single" else (16384, 32768)):
                for dmg in [["intact"] * n] + list(damage_sets(n, tier)):
                    if shape == "single" and dmg[0] == "missing":
                        continue
                    label = "v%d.%s.P%d.%s" % (version, shape, P, "-".join(k[0] for k in dmg))
                    out.append((label, "job_recheck", dict(prop="C16", version=version, shape=shape, P=P, K=K, dmg=dmg, source="ref")))
    for version in (1, 2, 3):
        for shape in ("selfname", "selfdir"):
            for dmg in (["intact", "intact"], ["intact", "flip"], ["missing", "intact"]):
                for cpath in ("root", "parent"):
                    out.append(("v%d.%s.P16384.%s.%s" % (version, shape, "-".join(k[0] for k in dmg), cpath), "job_recheck",
                                dict(prop="C16", version=version, shape=shape, P=16384, K=1, dmg=dmg, source="ref", cpath=cpath)))
        out.append(("v%d.flat2.same-checker-twice" % version, "job_twice", dict(version=version)))
    for source in ("ref", "own"):       # piece-aligned v1 metafiles (padding entries between the files)
        for dmg in (["intact", "flip"], ["flip", "intact"], ["trunc", "intact"], ["intact", "missing"]):
            out.append(("v1.flat2.P16384.aligned.%s.%s" % (source, "-".join(k[0] for k in dmg)), "job_recheck",
                        dict(prop="C16", version=1, shape="flat2", P=16384, K=2, dmg=dmg, source=source, aligned=True)))
        out.append(("v1.nested3.P16384.aligned.%s.i-i-f" % source, "job_recheck",
                    dict(prop="C16", version=1, shape="nested3", P=16384, K=1, dmg=["intact", "intact", "flip"], source=source, aligned=True)))
    for dmg in [['flip'], ['intact', 'trunc']]:          # the largest piece length the tool accepts (v1 reads a piece in one go)
        shape = "single" if len(dmg) == 1 else "flat2"
        out.append(("v1.%s.P33554432.%s" % (shape, "-".join(k[0] for k in dmg)), "job_recheck",
                    dict(prop="C16", version=1, shape=shape, P=2 ** 25, K=1, dmg=dmg, source="ref")))
    for version in (1, 2, 3):       # identical copies of one file in the tree, damage in one of them
        for dmg in (["intact", "flip"], ["flip", "intact"], ["intact", "intact", "flip"]):
            shape = "flat2" if len(dmg) == 2 else "nested3"
            out.append(("v%d.%s.P16384.identical-files.%s" % (version, shape, "-".join(k[0] for k in dmg)), "job_recheck",
                        dict(prop="C16", version=version, shape=shape, P=16384, K=2 if shape == "flat2" else 1, dmg=dmg, source="ref", dup=True)))
    for version in (2, 3, 1):       # sibling sub-directories, the damage below the later one
        for shape, dmg in (("nested4", ["intact", "intact", "flip", "intact"]), ("nested4", ["intact", "intact", "missing", "intact"]),
                           ("samename2", ["intact", "trunc"]), ("samename2", ["intact", "flip"])):
            out.append(("v%d.%s.P16384.%s.siblings" % (version, shape, "-".join(k[0] for k in dmg)), "job_recheck",
                        dict(prop="C16", version=version, shape=shape, P=16384, K=1, dmg=dmg, source="ref")))
    for version in (1, 2, 3):       # legal names that contain '..'
        for dmg in (["flip", "intact", "intact"], ["intact", "missing", "intact"], ["intact", "intact", "trunc"]):
            out.append(("v%d.nested3~dotdot.P16384.%s" % (version, "-".join(k[0] for k in dmg)), "job_recheck",
                        dict(prop="C16", version=version, shape="nested3~dotdot", P=16384, K=1, dmg=dmg, source="ref")))
    for source in ("ref", "own"):       # piece-aligned v1, two padding entries of the same length (equal names .pad/N)
        out.append(("v1.nested3.P16384.aligned.%s.equal-gaps" % source, "job_recheck",
                    dict(prop="C16", version=1, shape="nested3", P=16384, K=2, dmg=["intact", "intact", "flip"], source=source, aligned=True,
                         pinned={"s0": 16384 + 100, "s1": 100, "s2": 16384 + 7})))
    out.extend(rk.matrix_rows(tier, "C16"))
    # a v1 file list in an order other tools write: the files of one directory are not next to each other
    for dmg in (["intact", "intact", "intact"], ["intact", "flip", "intact"], ["missing", "intact", "intact"], ["intact", "intact", "trunc"]):
        for cpath in ("root", "parent"):
            if tier == "quick" and cpath == "parent" and dmg[0] != "intact":
                continue
            out.append(("v1.ungrouped3.P16384.%s.%s" % ("-".join(k[0] for k in dmg), cpath), "job_recheck",
                        dict(prop="C16", version=1, shape="ungrouped3", P=16384, K=1, dmg=dmg, source="ref", cpath=cpath)))
    return out


def job_twice(E, version, _mutants=None):
    """One Checker object asked twice, the content changing in between: the second
    answer must be the reference share for the content as it is then."""
    from symx.afs import AFS
    from symx.loader import World, BenTok
    from symx.core import disj, Rat, tb
    P = 16384
    shape = "flat2"
    rels = rk.SHAPES[shape]
    fs = AFS(order="reversed")
    sizes = {r: E.int("s%d" % i, 0, 2 * P) for i, r in enumerate(rels)}
    E.note("shape", shape)
    E.assume(disj(*[s > 0 for s in sizes.values()]))
    rk.apply_damage(E, fs, shape, sizes, ["intact", "intact"])
    meta = rk.ref_meta(E, version, shape, sizes, P)
    fs.add_token("/t/m.torrent", BenTok(meta))
    w = World(fs, mutants=_mutants)
    try:
        c = w.mod("recheck").Checker("/t/m.torrent", "/data")
        first = c.results()
        t = E.int("t0", 0, None)
        E.assume(t < sizes[rels[0]])
        fid = rk.cr.fid_of(shape, rels[0])
        from symx.abuf import ABuf
        fs.add_content("/data/" + rels[0], ABuf.file(fid, t))
        second = c.results()
    except Exception as ex:  # noqa: BLE001
        E.fail("C16.no-exception", "%s: %s" % (type(ex).__name__, ex))
        return
    E.check(first == 100, "C16.twice.first", "intact content reported as %r" % (first,))
    disk_ext = {rels[0]: ABuf.of([("F", fid, 0, t), ("Z", None, 0, sizes[rels[0]] - t)]), rels[1]: rk.expected_content(shape, rels[1], sizes)}
    table = rk.piece_table(version, shape, sizes, P, disk_ext, meta)
    ref = 0
    total = sizes[rels[0]] + sizes[rels[1]]
    for ok, n in table:
        if ok:
            ref = ref + n
    rk.check_percentage(E, second, ref, total, None, "C16.twice.second")


def validate(tier, workdir, seed):
    return rk.validate("C16", tier, workdir, seed)


def replay(params, model, notes, workdir, seed):
    if "shape" not in params:
        import io
        import os
        import contextlib
        p2 = dict(prop="C16", version=params["version"], shape="flat2", P=16384, K=2, dmg=["intact", "intact"], source="ref", cpath="parent")
        mpath, cpath, data, disk, sizes = rk.conc_world(p2, model, workdir, seed)
        mods = rk.cr.real_torrentfile()
        with contextlib.redirect_stdout(io.StringIO()):
            c = mods["torrentfile.recheck"].Checker(mpath, cpath)
            first = c.results()
            t = int(model.get("t0", 0))
            a = os.path.join(workdir, "data", "name", "a")
            with open(a, "wb") as f:
                f.write(data["name/a"][:t])
            second = c.results()
        disk["name/a"] = data["name/a"][:t]
        table = rk.conc_table(params["version"], "flat2", 16384, data, disk, rk.v1_order("flat2"))
        ref = sum(n for ok, n in table if ok) / sum(sizes.values()) * 100
        bad = []
        if first != 100:
            bad.append("C16.twice.first")
        if second != ref:
            bad.append("C16.twice.second (%r vs %r)" % (second, ref))
        return bad
    return rk.conc_recheck("C16", params, model, workdir, seed)


def canaries(tier):
    return [
        ("Checker: percentage over total instead of consumed, matched counted twice for the last piece", {"recheck": [(
            "            if chunk == piece:\n                matching += size\n                matched += size",
            "            if chunk == piece:\n                matching += size\n                matched += self.piece_length")]},
         ["v1.flat2.*", "v2.single.*"]),
        ("HashChecker.advance: last short piece counted as a full piece", {"recheck": [(
            "        else:\n            size = self.length\n            self.length -= self.length\n        return piece, size",
            "        else:\n            size = self.piece_length\n            self.length -= self.length\n        return piece, size")]},
         ["v2.flat2.*", "v3.single.*"]),
    ]


if __name__ == "__main__":
    from harness import common
    raise SystemExit(common.main("harness.c16"))
