"""Direct SMT lemmas (bit-precise floating point) shared by recheck harnesses."""
import time

import z3


def lpct(width, timeout_ms=900000):
    """L-pct: for integers 0 <= m <= c, 0 < c < 2^w:
    RN(RN(m/c) * 100) == 100.0  <=>  m == c      (IEEE binary64, round-nearest-even),
    which is how Checker.iter_hashes computes `(matched / consumed) * 100`.
    CPython's int/int true division is correctly rounded, so RN(m/c) is fp.div of
    the exactly converted operands for m, c < 2^53."""
    F = z3.Float64()
    rm = z3.RNE()
    m, c = z3.BitVecs("m c", width + 1)
    s = z3.Solver()
    s.set("timeout", timeout_ms)
    s.add(z3.ULE(m, c), z3.UGT(c, 0), z3.ULT(c, 2 ** width))
    fm = z3.fpToFP(rm, z3.ZeroExt(64 - width - 1, m), F) if False else z3.fpUnsignedToFP(rm, m, F)
    fc = z3.fpUnsignedToFP(rm, c, F)
    pct = z3.fpMul(rm, z3.fpDiv(rm, fm, fc), z3.FPVal(100.0, F))
    is100 = z3.fpEQ(pct, z3.FPVal(100.0, F))
    s.add(is100 != (m == c))
    t = time.time()
    r = s.check()
    return str(r), time.time() - t, (s.model() if r == z3.sat else None)


def lpct_job(width):
    r, secs, model = lpct(width)
    res = {"label": "lemma.L-pct.w%d" % width, "func": "lpct", "params": {"width": width}, "failures": [], "known": [],
           "unsupported": [], "witnesses": {}, "samples": [{"inputs": {"lemma": "RN(RN(m/c)*100)==100.0 <=> m==c for 0<=m<=c<2^%d" % width,
                                                                  "result": r}, "notes": {}, "decisions": 0}],
           "stats": {"paths": 1, "queries": 1, "solver_s": round(secs, 2), "checks": 1,
                     "checks_by_obligation": {"L-pct.w%d" % width: 1}}, "wall_s": round(secs, 2), "error": None}
    if r == "sat":
        res["unsupported"].append("L-pct refuted at width %d: %s" % (width, model))
    elif r != "unsat":
        res["unsupported"].append("L-pct at width %d: solver answered %s" % (width, r))
    return res
