"""Direct SMT lemmas (bit-precise floating point) shared by recheck harnesses."""
import time

import z3


def lpct(width, timeout_ms=900000):
    """L-pct: for integers 0 <= m <= c, 0 < c < 2^w:
    RN(RN(m/c) * 100) == 100.0  <=>  m == c      (IEEE binary64, round-nearest-even),
    which is how Checker.iter_hashes computes `(matched / consumed) * 100`.
    CPython's int/int true division is correctly rounded, so RN(m/c) is fp.div of
    the exactly converted operands for m, c < 2^53."""
    F = z3.Float64()
    rm = z3.RNE()
    m, c = z3.BitVecs("m c", width + 1)
    s = z3.Solver()
    s.set("timeout", timeout_ms)
    s.add(z3.ULE(m, c), z3.UGT(c, 0), z3.ULT(c, 2 ** width))
    fm = z3.fpToFP(rm, z3.ZeroExt(64 - width - 1, m), F) if False else z3.fpUnsignedToFP(rm, m, F)
    fc = z3.fpUnsignedToFP(rm, c, F)
    pct = z3.fpMul(rm, z3.fpDiv(rm, fm, fc), z3.FPVal(100.0, F))
    is100 = z3.fpEQ(pct, z3.FPVal(100.0, F))
    s.add(is100 != (m == c))
    t = time.time()
    r = s.check()
    return str(r), time.time() - t, (s.model() if r == z3.sat else None)


def lpct_job(width):
    r, secs, model = lpct(width)
    res = {"label": "lemma.L-pct.w%d" % width, "func": "lpct", "params": {"width": width}, "failures": [], "known": [],
           "unsupported": [], "witnesses": {}, "samples": [{"inputs": {"lemma": "RN(RN(m/c)*100)==100.0 <=> m==c for 0<=m<=c<2^%d" % width,
                                                                  "result": r}, "notes": {}, "decisions": 0}],
           "stats": {"paths": 1, "queries": 1, "solver_s": round(secs, 2), "checks": 1,
                     "checks_by_obligation": {"L-pct.w%d" % width: 1}}, "wall_s": round(secs, 2), "error": None}
    if r == "sat":
        res["unsupported"].append("L-pct refuted at width %d: %s" % (width, model))
    elif r != "unsat":
        res["unsupported"].append("L-pct at width %d: solver answered %s" % (width, r))
    return res


def fpdiv_cmp(d, op, c, bits=53, timeout_ms=300000):
    """For all integers 0 <= x < 2^bits:  RN(x / d) <op> c  ==  (x <op'> c*d) over
    the integers - i.e. evaluating `x / d <op> c` exactly (as symx does) agrees with
    CPython's float result (int/int true division is correctly rounded)."""
    F = z3.Float64()
    rm = z3.RNE()
    x = z3.BitVec("x", bits + 1)
    s = z3.Solver()
    s.set("timeout", timeout_ms)
    s.add(z3.ULT(x, 2 ** bits))
    fx = z3.fpUnsignedToFP(rm, x, F)
    q = z3.fpDiv(rm, fx, z3.FPVal(float(d), F))
    fc = z3.FPVal(float(c), F)
    cd = int(c * d) if float(c * d) == int(c * d) else None
    if cd is None or float(d) != d or cd < 0:
        return "unknown", 0.0
    if cd >= 2 ** bits:
        cdv, over = None, True
    else:
        cdv, over = z3.BitVecVal(cd, bits + 1), False
    fop = {"gt": z3.fpGT, "ge": z3.fpGEQ, "lt": z3.fpLT, "le": z3.fpLEQ, "eq": z3.fpEQ}[op]
    if over:
        ival = z3.BoolVal(op in ("lt", "le"))
    else:
        ival = {"gt": z3.UGT, "ge": z3.UGE, "lt": z3.ULT, "le": z3.ULE, "eq": lambda a, b: a == b}[op](x, cdv)
    s.add(fop(q, fc) != ival)
    t = time.time()
    r = s.check()
    return str(r), time.time() - t


def _fpdiv_star(a):
    return fpdiv_cmp(*a)


def fpdiv_jobs(fp_log):
    import multiprocessing as mp
    out = []
    fp_log = list(fp_log)
    if len(fp_log) > 1:
        with mp.get_context("fork").Pool(min(16, len(fp_log))) as pool:
            rs = pool.map(_fpdiv_star, fp_log)
    else:
        rs = [fpdiv_cmp(*a) for a in fp_log]
    for (d, op, c), (r, secs) in zip(fp_log, rs):
        res = {"label": "lemma.fpdiv.%s.%s.%s" % (d, op, c), "func": "fpdiv_cmp", "params": {"d": d, "op": op, "c": c},
               "failures": [], "known": [], "unsupported": [], "witnesses": {},
               "samples": [{"inputs": {"lemma": "forall 0<=x<2^53: RN(x/%s) %s %s  <=>  x %s %s" % (d, op, c, op, c * d), "result": r},
                            "notes": {}, "decisions": 0}],
               "stats": {"paths": 1, "queries": 1, "solver_s": round(secs, 2), "checks": 1,
                         "checks_by_obligation": {"L-fpdiv": 1}}, "wall_s": round(secs, 2), "error": None}
        if r != "unsat":
            res["unsupported"].append("float division lemma not proved for x/%s %s %s: %s" % (d, op, c, r))
        out.append(res)
    return out
