"""Direct SMT lemmas (bit-precise floating point) shared by recheck harnesses."""
import time

import z3


def lpct(width, timeout_ms=900000):
    """L-pct: for integers 0 <= m <= c, 0 < c < 2^w:
    RN(RN(m/c) * 100) == 100.0  <=>  m == c      (IEEE binary64, round-nearest-even),
    which is how Checker.iter_hashes computes `(matched / consumed) * 100`.
    CPython's int/int true division is correctly rounded, so RN(m/c) is fp.div of
    the exactly converted operands for m, c < 2^53."""
    F = z3.Float64()
    rm = z3.RNE()
    m, c = z3.BitVecs("m c", width + 1)
    s = z3.Solver()
    s.set("timeout", timeout_ms)
    s.add(z3.ULE(m, c), z3.UGT(c, 0), z3.ULT(c, 2 ** width))
    fm = z3.fpToFP(rm, z3.ZeroExt(64 - width - 1, m), F) if False else z3.fpUnsignedToFP(rm, m, F)
    fc = z3.fpUnsignedToFP(rm, c, F)
    pct = z3.fpMul(rm, z3.fpDiv(rm, fm, fc), z3.FPVal(100.0, F))
    is100 = z3.fpEQ(pct, z3.FPVal(100.0, F))
    s.add(is100 != (m == c))
    t = time.time()
    r = s.check()
    return str(r), time.time() - t, (s.model() if r == z3.sat else None)


def lpct_job(width):
    r, secs, model = lpct(width)
    res = {"label": "lemma.L-pct.w%d" % width, "func": "lpct", "params": {"width": width}, "failures": [], "known": [],
           "unsupported": [], "witnesses": {}, "samples": [{"inputs": {"lemma": "RN(RN(m/c)*100)==100.0 <=> m==c for 0<=m<=c<2^%d" % width,
                                                                  "result": r}, "notes": {}, "decisions": 0}],
           "stats": {"paths": 1, "queries": 1, "solver_s": round(secs, 2), "checks": 1,
                     "checks_by_obligation": {"L-pct.w%d" % width: 1}}, "wall_s": round(secs, 2), "error": None}
    if r == "sat":
        res["unsupported"].append("L-pct refuted at width %d: %s" % (width, model))
    elif r != "unsat":
        res["unsupported"].append("L-pct at width %d: solver answered %s" % (width, r))
    return res


def fpdiv_cmp(d, op, c, bits=53, timeout_ms=300000):
    """For all integers 0 <= x < 2^bits:  RN(x / d) <op> c  ==  (x <op'> c*d) over
    the integers - i.e. evaluating `x / d <op> c` exactly (as symx does) agrees with
    CPython's float result (int/int true division is correctly rounded)."""
    F = z3.Float64()
    rm = z3.RNE()
    x = z3.BitVec("x", bits + 1)
    s = z3.Solver()
    s.set("timeout", timeout_ms)
    s.add(z3.ULT(x, 2 ** bits))
    fx = z3.fpUnsignedToFP(rm, x, F)
    q = z3.fpDiv(rm, fx, z3.FPVal(float(d), F))
    fc = z3.FPVal(float(c), F)
    cd = int(c * d) if float(c * d) == int(c * d) else None
    if cd is None or float(d) != d or cd < 0:
        return "unknown", 0.0
    if cd >= 2 ** bits:
        cdv, over = None, True
    else:
        cdv, over = z3.BitVecVal(cd, bits + 1), False
    fop = {"gt": z3.fpGT, "ge": z3.fpGEQ, "lt": z3.fpLT, "le": z3.fpLEQ, "eq": z3.fpEQ}[op]
    if over:
        ival = z3.BoolVal(op in ("lt", "le"))
    else:
        ival = {"gt": z3.UGT, "ge": z3.UGE, "lt": z3.ULT, "le": z3.ULE, "eq": lambda a, b: a == b}[op](x, cdv)
    s.add(fop(q, fc) != ival)
    t = time.time()
    r = s.check()
    return str(r), time.time() - t


def _fpdiv_star(a):
    return fpdiv_cmp(*a)


def fpdiv_jobs(fp_log):
    import multiprocessing as mp
    out = []
    fp_log = list(fp_log)
    if len(fp_log) > 1:
        with mp.get_context("fork").Pool(min(16, len(fp_log))) as pool:
            rs = pool.map(_fpdiv_star, fp_log)
    else:
        rs = [fpdiv_cmp(*a) for a in fp_log]
    for (d, op, c), (r, secs) in zip(fp_log, rs):
        res = {"label": "lemma.fpdiv.%s.%s.%s" % (d, op, c), "func": "fpdiv_cmp", "params": {"d": d, "op": op, "c": c},
               "failures": [], "known": [], "unsupported": [], "witnesses": {},
               "samples": [{"inputs": {"lemma": "forall 0<=x<2^53: RN(x/%s) %s %s  <=>  x %s %s" % (d, op, c, op, c * d), "result": r},
                            "notes": {}, "decisions": 0}],
               "stats": {"paths": 1, "queries": 1, "solver_s": round(secs, 2), "checks": 1,
                         "checks_by_obligation": {"L-fpdiv": 1}}, "wall_s": round(secs, 2), "error": None}
        if r != "unsat":
            res["unsupported"].append("float division lemma not proved for x/%s %s %s: %s" % (d, op, c, r))
        out.append(res)
    return out


# ---- per-shape rounding lemmas ------------------------------------------------------------------------------------
# symx evaluates `int / int * const ...` exactly (core.Rat) and remembers the expression as the code wrote it.  For
# every expression shape that decided an obligation the float evaluation (IEEE binary64, round-nearest-even; CPython's
# int/int true division is correctly rounded for operands below 2^53) must give the same verdict.

def shape_lemma(goal, shape, rels, pos, width, timeout_ms=900000):
    """goal 'eq100': the float value is exactly 100.0 ; 'lt100': it is below 100.0 - for all integer leaves in
    [0, 2^width) that satisfy the order relations `rels` (and are positive where listed in `pos`)."""
    F = z3.Float64()
    rm = z3.RNE()
    idx = []

    def scan(t):
        if t[0] == "i":
            idx.append(t[1])
        elif t[0] != "c":
            for x in t[1:]:
                scan(x)
    scan(shape)
    n = (max(idx) + 1) if idx else 0
    cmax = max([b[1] for _, b, _ in rels if isinstance(b, tuple)] + [0])
    width = max(width, cmax.bit_length() + 2)         # the range must reach past every constant a leaf is related to
    vs = [z3.BitVec("v%d" % i, width + 1) for i in range(n)]
    s = z3.Solver()
    s.set("timeout", timeout_ms)
    for v in vs:
        s.add(z3.ULT(v, 2 ** width))
    for i in pos:
        s.add(z3.UGT(vs[i], 0))
    for i, j, r in rels:
        b = z3.BitVecVal(j[1], width + 1) if isinstance(j, tuple) else vs[j]
        s.add({"eq": vs[i] == b, "lt": z3.ULT(vs[i], b), "le": z3.ULE(vs[i], b),
               "gt": z3.UGT(vs[i], b), "ge": z3.UGE(vs[i], b)}[r])

    def ev(t):
        k = t[0]
        if k == "c":
            return z3.FPVal(float(t[1]), F)
        if k == "i":
            return z3.fpUnsignedToFP(rm, vs[t[1]], F)
        if k == "neg":
            return z3.fpNeg(ev(t[1]))
        a, b = ev(t[1]), ev(t[2])
        if k == "div":
            s.add(z3.Not(z3.fpIsZero(b)))      # the division was executed without ZeroDivisionError on the path
            return z3.fpDiv(rm, a, b)
        return {"mul": z3.fpMul, "add": z3.fpAdd, "sub": z3.fpSub}[k](rm, a, b)
    val = ev(shape)
    hundred = z3.FPVal(100.0, F)
    s.add(z3.Not(z3.fpEQ(val, hundred) if goal == "eq100" else z3.fpLT(val, hundred)))
    t = time.time()
    r = s.check()
    model = None
    if r == z3.sat:
        m = s.model()
        model = [m.eval(v, model_completion=True).as_long() for v in vs]
    return str(r), time.time() - t, model


def _shape_star(a):
    return shape_lemma(*a)


def shape_jobs(results, width, prop, model_of=None):
    """One lemma per distinct (goal, shape, relations) recorded by the jobs.  A refuted lemma becomes a failure of the
    job that recorded it when `model_of(params, leaf values, relations)` can turn the leaf values into a job model
    (replayed like any counterexample); otherwise it is inconclusive."""
    import multiprocessing as mp
    seen = {}
    for r in results:
        for e in r.get("fp_shapes", []):
            key = repr(e)
            if key not in seen or r["params"].get("shape") == "single":
                seen[key] = (e, r)
    items = list(seen.values())
    args = [(e[0], e[1], e[2], e[3], width) for e, _ in items]
    if len(args) > 1:
        with mp.get_context("fork").Pool(min(16, len(args))) as pool:
            rs = pool.map(_shape_star, args)
    else:
        rs = [shape_lemma(*a) for a in args]
    out = []
    for k, ((e, r0), (verdict, secs, model)) in enumerate(zip(items, rs)):
        goal, shape, rels, pos = e
        res = {"label": "lemma.fp-shape.%d.%s" % (k, goal), "func": r0["func"], "params": r0["params"], "failures": [], "known": [],
               "unsupported": [], "witnesses": {},
               "samples": [{"inputs": {"lemma": "float evaluation of %r under %r is %s for all integer leaves < 2^%d" % (shape, rels, goal, width),
                                       "result": verdict, "recorded_by": r0["label"]}, "notes": {}, "decisions": 0}],
               "stats": {"paths": 1, "queries": 1, "solver_s": round(secs, 2), "checks": 1,
                         "checks_by_obligation": {"L-fp-shape": 1}}, "wall_s": round(secs, 2), "error": None}
        if verdict == "sat":
            jm = model_of(r0["params"], model, rels) if model_of else None
            if jm is not None:
                res["failures"].append({"obligation": "%s.float-%s" % (prop, goal), "model": jm, "notes": {},
                                        "msg": "exact arithmetic says %s but the float expression %r does not for leaves %r" % (goal, shape, model)})
            else:
                res["unsupported"].append("rounding lemma refuted for %r (leaves %r, relations %r); no concrete scenario constructed" % (shape, model, rels))
        elif verdict != "unsat":
            res["unsupported"].append("rounding lemma for %r: solver answered %s" % (shape, verdict))
        out.append(res)
    return out
