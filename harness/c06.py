"""C06: every metafile written is canonical, structurally valid bencoding."""
import os

from symx.core import tb, disj, conj, SymInt, Unsupported
from symx.abuf import ABuf
from symx.afs import AFS
from symx.loader import World, BenTok
from symx.ostr import OStr
from symx.strs import SymStr

from harness import creators as cr
from harness import editw as ew
from harness.creators import SHAPES
import refconc

PROPERTY = "C06"
MODULES = ["torrent", "edit", "hasher", "utils"]
ASSUMPTIONS = [
    "A-pyben: pyben emits dictionary keys in insertion order, minimal-digit integers and lengths and nothing after the "
    "top-level value; the capture point is the object handed to pyben.dump (digit minimality / trailing data are "
    "re-checked concretely with a strict decoder on every replay, not by the solver)",
    "byte order of digests (piece-layer keys): each distinct digest gets a fresh integer rank, unconstrained otherwise, "
    "so 'some file contents make root(a) > root(b)' is satisfiable exactly when nothing sorted the keys",
    "string keys are concrete and compared by their UTF-8 bytes; option values are opaque strings",
    "sizes are solver variables and decide which files have piece layers",
]
WITNESSES = ["two piece-layer entries", "edit adds a key", "edit removes a key"]


def BOUNDS(tier):
    q = tier == "quick"
    return {"creators": "TorrentFile, TorrentAssembler v2/hybrid" + ("" if q else ", TorrentFileV2, TorrentFileHybrid"),
            "shapes": "single, flat2, order2" + ("" if q else ", nested3"), "sizes": "each in [0, 2P] (single [1, 3P]), P=16 KiB",
            "options": "announce (str or list), comment, source, private, url_list, httpseeds: each present or absent (forked)",
            "edits": "0, 1 or 2 subsequent edit_torrent calls that add, replace or remove fields",
            "outside": "more files, other option types, three or more edits (thorough: 3 edits on a fixed base)"}


def jobs(tier):
    q = tier == "quick"
    out = []
    creators = ["1", "2a", "3a"] + ([] if q else ["2c", "3c"])
    if q:
        for which in ("2c", "3c"):
            out.append(("create.%s.flat2" % which, "job_create", dict(which=which, shape="flat2", K=2, edits=0, mode="sizes")))
            out.append(("create.%s.mixedcase2" % which, "job_create", dict(which=which, shape="mixedcase2", K=2, edits=0, mode="sizes")))
    for version in (1, 3):
        out.append(("edit-foreign-layout.v%d" % version, "job_edit_foreign", dict(version=version)))
    for which in ("2a", "2c", "3a", "3c", "1"):       # names that are not stable under Unicode normalisation, with siblings in between
        for shape in ("flat2~decomposed", "nested3~decomposed"):
            out.append(("create.%s.%s" % (which, shape), "job_create", dict(which=which, shape=shape, K=1, edits=0, mode="sizes")))
    for which in ("1", "2a", "3a") + (() if q else ("2c", "3c")):
        out.append(("create-unencodable.%s" % which, "job_create_unencodable", dict(which=which, unenc=True)))
    for version in (1, 3):
        out.append(("edit-swap.v%d" % version, "job_edit_swap", dict(version=version, swap=True)))
    for version in (2, 3):
        out.append(("edit-mixed-keys.v%d" % version, "job_edit_mixed", dict(version=version, mixed=True)))
    for shape in ("flat2", "nested3"):
        out.append(("create.1.%s.align" % shape, "job_create", dict(which="1", shape=shape, K=2, edits=0, mode="sizes", align=True)))
    for which in creators:
        for shape, K in [("single", 3), ("flat2", 2), ("order2", 2), ("mixedcase2", 2)] + ([] if q else [("nested3", 2)]):
            out.append(("create.%s.%s" % (which, shape), "job_create", dict(which=which, shape=shape, K=K, edits=0, mode="sizes")))
        out.append(("create-opts.%s" % which, "job_create", dict(which=which, shape="flat2", K=2, edits=0, mode="opts")))
        out.append(("create+edit.%s" % which, "job_create", dict(which=which, shape="flat2", K=2, edits=1 if q else 2, mode="edits")))
    for version in (1, 3):
        out.append(("edit-lengths.v%d" % version, "job_edit_lengths", dict(version=version)))
    for version in (1, 2, 3):
        out.append(("edit2.v%d" % version, "job_edits", dict(version=version, n=2)))
        if not q:
            out.append(("edit3.v%d" % version, "job_edits", dict(version=version, n=3)))
    return out


def keybytes(k):
    if isinstance(k, str) and not isinstance(k, (OStr,)):
        return k.encode("utf-8")
    return None


def check_canonical(E, obj, tag, path="$"):
    """Keys unique and strictly ascending in raw byte order at every level; value types."""
    if isinstance(obj, dict):
        keys = list(obj.keys())
        strs_ = [k for k in keys if isinstance(k, str)]
        bufs = [k for k in keys if isinstance(k, ABuf)]
        E.check(len(strs_) + len(bufs) == len(keys), tag + ".key-type", "%s: keys must be strings" % path)
        if strs_ and bufs and all(len(b.segs) == 1 and b.segs[0][0] == "L" for b in bufs):
            # concrete binary keys next to text keys (what a decoder returns for keys that are not valid UTF-8)
            bs = [k.encode("utf-8") if isinstance(k, str) else bytes(k.segs[0][1]) for k in keys]
            E.check(all(bs[i] < bs[i + 1] for i in range(len(bs) - 1)), tag + ".keys-sorted",
                    "%s: keys not strictly ascending in raw byte order: %r" % (path, bs))
        elif strs_ and bufs:
            E.fail(tag + ".key-type", "%s: mixed text and binary keys cannot be ordered by this model" % path)
        elif strs_:
            bs = [k.encode("utf-8") for k in strs_]
            E.check(all(bs[i] < bs[i + 1] for i in range(len(bs) - 1)), tag + ".keys-sorted",
                    "%s: keys not strictly ascending: %r" % (path, strs_))
        elif bufs:
            for i in range(len(bufs) - 1):
                E.check(bufs[i] < bufs[i + 1], tag + ".keys-sorted",
                        "%s: binary keys (digests) are in insertion order, not ascending byte order" % path)
        for k, v in obj.items():
            check_canonical(E, v, tag, "%s.%s" % (path, k if isinstance(k, str) else "<digest>"))
    elif isinstance(obj, (list, tuple)):
        for i, v in enumerate(obj):
            check_canonical(E, v, tag, "%s[%d]" % (path, i))
    elif isinstance(obj, bool):
        E.fail(tag + ".value-type", "%s: boolean value (pyben would emit i<True>e)" % path)
    elif isinstance(obj, (int, SymInt, str, OStr, SymStr, ABuf, bytes, bytearray)):
        pass
    else:
        E.fail(tag + ".value-type", "%s: %s" % (path, type(obj).__name__))


def check_structure(E, meta, version, tag):
    info = meta.get("info")
    if not E.check(isinstance(info, dict), tag + ".info"):
        return
    E.check(isinstance(info.get("name"), (str, OStr)), tag + ".name")
    pl = info.get("piece length")
    E.check(isinstance(pl, (int, SymInt)) and not isinstance(pl, bool), tag + ".piece-length")
    if version in (1, 3):
        E.check(("length" in info) != ("files" in info), tag + ".length-xor-files")
        p = info.get("pieces")
        if E.check(isinstance(p, ABuf), tag + ".pieces"):
            try:
                n = p.size()
                E.check(n % 20 == 0, tag + ".pieces-multiple-of-20")
            except Unsupported:
                pass
    if version in (2, 3):
        E.check(info.get("meta version") == 2, tag + ".meta-version")
        E.check(isinstance(info.get("file tree"), dict), tag + ".file-tree")
        layers = meta.get("piece layers")
        if E.check(isinstance(layers, dict), tag + ".piece-layers"):
            for k, v in layers.items():
                E.check(isinstance(k, ABuf) and isinstance(v, ABuf), tag + ".piece-layers.types")
                if isinstance(v, ABuf):
                    try:
                        E.check(v.size() % 32 == 0, tag + ".piece-layers.multiple-of-32")
                    except Unsupported:
                        pass
    if version == 1:
        E.check("meta version" not in info, tag + ".v1-no-meta-version")


OPTS = ["announce", "comment", "source", "private", "url_list", "httpseeds"]


PRESETS = [{}, {"announce": 1, "comment": 1, "source": 1, "private": 1, "url_list": 1, "httpseeds": 1},
           {"announce": 2, "comment": 1, "url_list": 1}]


def job_create(E, which, shape, K, edits, mode="sizes", align=False, _mutants=None):
    """mode 'sizes': symbolic sizes, option presets; 'opts': fixed sizes (both files
    multi-piece), every option subset; 'edits': fixed sizes, presets, forked edits."""
    P = 16384
    if mode == "sizes":
        fs, sizes = cr.make_fs(E, shape, K, P, order="reversed", lo=1 if shape == "single" else 0)
        if shape != "single":
            E.assume(disj(*[s > 0 for s in sizes.values()]))
    else:
        pin = cr.Pinned({"s0": 40000, "s1": 16385, "s2": 7})
        fs, sizes = cr.make_fs(pin, shape, K, P, order="reversed")
        E.note("shape", shape)
        for i in range(len(SHAPES[shape])):
            E.int("s%d" % i, pin.values["s%d" % i], pin.values["s%d" % i])
    fs.mkdirs("/out")
    kw = {}
    present = {}
    if mode == "opts":
        for o in OPTS:
            present[o] = E.choice("opt.%s" % o, 3 if o == "announce" else 2)
    else:
        pre = PRESETS[E.choice("preset", len(PRESETS))]
        for o in OPTS:
            present[o] = pre.get(o, 0)
    E.note("present", dict(present))
    if present["announce"] == 1:
        kw["announce"] = OStr("o.announce", nonempty=True)
    elif present["announce"] == 2:
        kw["announce"] = [OStr("o.announce0", nonempty=True), OStr("o.announce1", nonempty=True)]
    if present["comment"]:
        kw["comment"] = OStr("o.comment", nonempty=True)
    if present["source"]:
        kw["source"] = OStr("o.source", nonempty=True)
    if present["private"]:
        kw["private"] = True
    if present["url_list"]:
        kw["url_list"] = [OStr("o.ws", nonempty=True)]
    if present["httpseeds"]:
        kw["httpseeds"] = [OStr("o.hs", nonempty=True)]
    if align:
        kw["align"] = True
    w = World(fs, mutants=_mutants)
    version = {"1": 1, "2a": 2, "2c": 2, "3a": 3, "3c": 3}[which]
    try:
        t = cr.create(w, which, path="/data/name", piece_length=P, progress=0, outfile="/out/x.torrent", **kw)
        t.write()
    except Unsupported:
        raise
    except Exception as ex:  # noqa: BLE001
        E.fail("C06.no-exception", "%s: %s" % (type(ex).__name__, ex))
        return
    dumps = [d for d in w.dumps_log if d[0] == "dump"]
    if not E.check(len(dumps) == 1, "C06.one-dump", "%d dumps" % len(dumps)):
        return
    check_canonical(E, dumps[0][1], "C06.create")
    check_structure(E, dumps[0][1], version, "C06.create")
    layers = dumps[0][1].get("piece layers")
    if isinstance(layers, dict) and len(layers) >= 2:
        E.witnesses["two piece-layer entries"] = True
    if version == 1:
        E.witnesses.setdefault("two piece-layer entries", True)
    for i in range(edits):
        kinds = {}
        for f in ("comment", "source", "announce", "private"):
            opts = {"comment": ["unnamed", "cleared", "str"], "source": ["unnamed", "str"], "announce": ["unnamed", "cleared", "list2"],
                    "private": ["unnamed", "true"]}[f]
            kinds[f] = opts[E.choice("e%d.%s" % (i, f), len(opts))]
        req = ew.request(E, kinds, tag="e%d" % i)
        before = len(w.dumps_log)
        try:
            w.mod("edit").edit_torrent("/out/x.torrent", dict(req))
        except Unsupported:
            raise
        except Exception as ex:  # noqa: BLE001
            E.fail("C06.edit.no-exception", "%s: %s" % (type(ex).__name__, ex))
            return
        for d in w.dumps_log[before:]:
            if d[0] == "dump":
                check_canonical(E, d[1], "C06.edit")
                check_structure(E, d[1], version, "C06.edit")
    for k in ("edit adds a key", "edit removes a key"):
        E.witnesses.setdefault(k, True)


STEP_FIELDS = [
    {"announce": ["unnamed", "cleared", "str"], "comment": ["unnamed", "cleared", "str"], "url-list": ["unnamed", "list1"]},
    {"source": ["unnamed", "str"], "private": ["unnamed", "true"], "comment": ["unnamed", "cleared"], "httpseeds": ["unnamed", "list2"]},
    {"announce": ["unnamed", "list2"], "source": ["unnamed", "cleared"]},
]
ALLKEYS = ("announce", "httpseeds", "comment", "private", "source", "url-list")


def job_edits(E, version, n, _mutants=None):
    preset = E.choice("base.preset", 2)
    force = {k: bool(preset) for k in ALLKEYS}
    force["comment-top"] = False
    E.note("base_all", bool(preset))
    base = ew.base_meta(E, version, force)
    fs = AFS()
    from symx.loader import ben_copy
    fs.add_token(ew.MPATH, BenTok(ben_copy(base)))
    w = World(fs, mutants=_mutants)
    for i in range(n):
        kinds = {}
        for f, opts in STEP_FIELDS[i].items():
            kinds[f] = opts[E.choice("e%d.%s" % (i, f), len(opts))]
        req = ew.request(E, kinds, tag="e%d" % i)
        for v in req.values():
            if isinstance(v, OStr):
                v._nonempty = True
        before = len(w.dumps_log)
        had = set(ew.file_obj(fs)) | {"info." + k for k in ew.file_obj(fs).get("info", {})}
        try:
            w.mod("edit").edit_torrent(ew.MPATH, dict(req))
        except Unsupported:
            raise
        except Exception as ex:  # noqa: BLE001
            if any(isinstance(v, OStr) and f in ew.TOP and v._nonempty and v._split.get(None) == [] for f, v in req.items()):
                return
            E.fail("C06.edit.no-exception", "%s: %s" % (type(ex).__name__, ex))
            return
        now_obj = ew.file_obj(fs)
        if isinstance(now_obj, dict):
            now = set(now_obj) | {"info." + k for k in now_obj.get("info", {})}
            if now - had:
                E.witnesses["edit adds a key"] = True
            if had - now:
                E.witnesses["edit removes a key"] = True
        for d in w.dumps_log[before:]:
            if d[0] == "dump":
                check_canonical(E, d[1], "C06.edit")
                check_structure(E, d[1], version, "C06.edit")
    E.witnesses.setdefault("two piece-layer entries", True)


def job_edit_foreign(E, version, _mutants=None):
    """Metafiles laid out the way other tools write them: a single announce key
    without announce-list, comment and source at the top level. Every edit must
    still leave a canonical file."""
    from symx.loader import ben_copy
    force = {k: False for k in ALLKEYS}
    force.update({"comment-top": True, "layers": True})
    base = ew.base_meta(E, version, force)
    variant = E.choice("foreign", 3)
    if variant in (0, 2):
        base["announce"] = OStr("base.announce", nonempty=True)          # no announce-list
    if variant in (1, 2):
        base["source"] = OStr("base.topsource", nonempty=True)            # top-level source (non-standard but legal)
    base = dict(sorted(base.items()))
    fs = AFS()
    fs.add_token(ew.MPATH, BenTok(ben_copy(base)))
    w = World(fs, mutants=_mutants)
    kinds = {}
    for f, opts in {"announce": ["unnamed", "list2", "str"], "comment": ["unnamed", "str"], "source": ["unnamed", "str"],
                    "private": ["unnamed", "true"]}.items():
        kinds[f] = opts[E.choice("e0.%s" % f, len(opts))]
    req = ew.request(E, kinds, tag="e0")
    for v in req.values():
        if isinstance(v, OStr):
            v._nonempty = True
    try:
        w.mod("edit").edit_torrent(ew.MPATH, dict(req))
    except Unsupported:
        raise
    except Exception as ex:  # noqa: BLE001
        if any(isinstance(v, OStr) and f in ew.TOP and v._split.get(None) == [] for f, v in req.items()):
            return
        E.fail("C06.edit.no-exception", "%s: %s" % (type(ex).__name__, ex))
        return
    for d in w.dumps_log:
        if d[0] == "dump":
            check_canonical(E, d[1], "C06.edit")
            check_structure(E, d[1], version, "C06.edit")
    for k in WITNESSES:
        E.witnesses.setdefault(k, True)


MIXED_ROOTS = [b"\x01\xff" + b"y" * 30, b"A" * 32, b"\xc3\x28" + b"z" * 30]      # raw order; the middle one decodes as text


def _mixed_base(version, conc=False):
    """A v2 / hybrid metafile whose pieces roots are, in raw order: binary, valid UTF-8 (a decoder returns it as text),
    binary.  Built the way the decoder would return it: text where the bytes are valid UTF-8."""
    P = 16384

    def key(b):
        try:
            return b.decode("utf-8")
        except UnicodeDecodeError:
            return b if conc else ABuf(b)
    tree, layers = {}, {}
    for i, r in enumerate(MIXED_ROOTS):
        tree["f%d" % i] = {"": {"length": 2 * P, "pieces root": key(r)}}
        v = bytes([i + 1]) * 64
        layers[key(r)] = v if conc else ABuf(v)
    info = {"file tree": tree, "meta version": 2, "name": "name", "piece length": P}
    if version == 3:
        info["files"] = [{"length": 2 * P, "path": ["f%d" % i]} for i in range(3)]
        pcs = b"\x07" * (20 * 6)
        info["pieces"] = pcs if conc else ABuf(pcs)
    return {"announce": "http://t/a", "info": dict(sorted(info.items())), "piece layers": layers}


SWAP_FIELDS = {"comment": ["unnamed", "cleared", "str"], "source": ["unnamed", "cleared", "str"],
               "url-list": ["unnamed", "cleared", "list1"], "httpseeds": ["unnamed", "cleared", "list1"]}


def job_edit_swap(E, version, swap=True, _mutants=None):
    """One edit that may remove some fields and add others in the same dictionary (the number of keys can stay the
    same): every presence pattern of comment / source / url-list / httpseeds in the base, every request over them."""
    from symx.loader import ben_copy
    force = {"announce": True, "private": False, "comment-top": False, "layers": True}
    base = ew.base_meta(E, version, force)
    fs = AFS()
    fs.add_token(ew.MPATH, BenTok(ben_copy(base)))
    w = World(fs, mutants=_mutants)
    kinds = {f: opts[E.choice("e0.%s" % f, len(opts))] for f, opts in SWAP_FIELDS.items()}
    req = ew.request(E, kinds, tag="e0")
    for v in req.values():
        for x in (v if isinstance(v, list) else [v]):
            if isinstance(x, OStr):
                x._nonempty = True
    try:
        w.mod("edit").edit_torrent(ew.MPATH, dict(req))
    except Unsupported:
        raise
    except Exception as ex:  # noqa: BLE001
        E.fail("C06.edit.no-exception", "%s: %s" % (type(ex).__name__, ex))
        return
    for d in w.dumps_log:
        if d[0] == "dump":
            check_canonical(E, d[1], "C06.edit")
            check_structure(E, d[1], version, "C06.edit")
    E.witnesses["edit adds a key"] = True
    E.witnesses["edit removes a key"] = True
    E.witnesses.setdefault("two piece-layer entries", True)


def job_create_unencodable(E, which, unenc=True, _mutants=None):
    """A create that cannot be encoded (a value bencode has no representation for): whatever is at the output path
    afterwards is a complete metafile - the one that was there before, or nothing if there was none."""
    P = 16384
    fs, sizes = cr.make_fs(E, "flat2", 1, P, order="reversed")
    E.assume(disj(*[s > 0 for s in sizes.values()]))
    fs.mkdirs("/out")
    pre = E.choice("outfile-exists", 2)
    old = {"announce": "http://old/a", "info": {"length": 1, "name": "old", "piece length": P, "pieces": ABuf(b"x" * 20)}}
    if pre:
        fs.add_token("/out/x.torrent", BenTok(old))
    where = ["comment", "source", "announce"][E.choice("bad-field", 3)]
    kw = {where: 1.5} if where != "announce" else {"announce": ["http://t/a", 2.5]}
    w = World(fs, mutants=_mutants)
    raised = None
    try:
        t = cr.create(w, which, path="/data/name", piece_length=P, progress=0, outfile="/out/x.torrent", **kw)
        t.write()
    except Unsupported:
        raise
    except Exception as ex:  # noqa: BLE001
        raised = type(ex).__name__
    got = ew.file_obj(fs, "/out/x.torrent")
    if pre:
        E.check(isinstance(got, dict), "C06.failed-create.complete", "after a create that raised %s the output path holds %r" % (raised, got if not isinstance(got, dict) else "a metafile"))
    else:
        E.check(isinstance(got, dict) or got == ("MISSING",), "C06.failed-create.complete",
                "after a create that raised %s the (new) output path holds %r" % (raised, got))
    if isinstance(got, dict):
        check_canonical(E, {k: v for k, v in got.items()}, "C06.failed-create") if raised is None else None
    for k in WITNESSES:
        E.witnesses.setdefault(k, True)


def job_edit_mixed(E, version, mixed=True, _mutants=None):
    """Keys a decoder returns with mixed types (a pieces root that happens to be valid UTF-8 comes back as text, the
    others as bytes): the written file must still have them in raw byte order."""
    from symx.loader import ben_copy
    base = _mixed_base(version)
    fs = AFS()
    fs.add_token(ew.MPATH, BenTok(ben_copy(base)))
    w = World(fs, mutants=_mutants)
    kinds = {}
    for f, opts in {"announce": ["unnamed", "str"], "comment": ["unnamed", "str"], "private": ["unnamed", "true"]}.items():
        kinds[f] = opts[E.choice("e0.%s" % f, len(opts))]
    req = ew.request(E, kinds, tag="e0")
    for v in req.values():
        if isinstance(v, OStr):
            v._nonempty = True
    try:
        w.mod("edit").edit_torrent(ew.MPATH, dict(req))
    except Unsupported:
        raise
    except Exception as ex:  # noqa: BLE001
        if any(isinstance(v, OStr) and f in ew.TOP and v._split.get(None) == [] for f, v in req.items()):
            return
        E.fail("C06.edit.no-exception", "%s: %s" % (type(ex).__name__, ex))
        return
    for d in w.dumps_log:
        if d[0] == "dump":
            check_canonical(E, d[1], "C06.edit")
    for k in WITNESSES:
        E.witnesses.setdefault(k, True)


LEN_STEP = {"comment": ["unnamed", "cleared", "str"], "source": ["unnamed", "str"], "announce": ["unnamed", "cleared", "list1"]}


def job_edit_lengths(E, version, _mutants=None):
    """Length-sensitive part of 'nothing follows the top-level dictionary': the
    bencoded length of every opaque string is a solver variable (1..9 characters),
    files have sizes and handles opened without truncation overwrite in place."""
    from symx.loader import ben_copy, ben_len
    force = {k: True for k in ALLKEYS}
    force["comment-top"] = False
    force["layers"] = True
    base = ew.base_meta(E, version, force)
    fs = AFS()
    w = World(fs, mutants=_mutants)
    w.track_lengths = True
    stored = ben_copy(base)
    fs.add_token(ew.MPATH, BenTok(stored), size=ben_len(stored, w))
    kinds = {f: opts[E.choice("e0.%s" % f, len(opts))] for f, opts in LEN_STEP.items()}
    req = ew.request(E, kinds, tag="e0")
    for v in req.values():
        for x in (v if isinstance(v, list) else [v]):
            if isinstance(x, OStr):
                x._nonempty = True
    try:
        w.mod("edit").edit_torrent(ew.MPATH, dict(req))
    except Unsupported:
        raise
    except Exception as ex:  # noqa: BLE001
        if any(isinstance(v, OStr) and f in ew.TOP and v._split.get(None) == [] for f, v in req.items()):
            return
        E.fail("C06.edit.no-exception", "%s: %s" % (type(ex).__name__, ex))
        return
    got = ew.file_obj(fs)
    E.check(isinstance(got, dict), "C06.edit.nothing-follows",
            "after the edit the metafile holds a complete dictionary followed by %s" % (("leftover bytes of the previous file",) if isinstance(got, tuple) else ""))
    if isinstance(got, dict):
        check_canonical(E, got, "C06.edit")
    for k in WITNESSES:
        E.witnesses.setdefault(k, True)


# ------------------------------------------------------------------ concrete replay

def _strict(path, version):
    bad = []
    data = open(path, "rb").read()
    try:
        meta = refconc.bdecode_strict(data)
    except refconc.BencodeError as ex:
        return ["C06.canonical: %s" % ex]
    info = meta.get(b"info", {})
    if not isinstance(info.get(b"name"), bytes) or not isinstance(info.get(b"piece length"), int):
        bad.append("C06.structure.name/piece-length")
    if version in (1, 3):
        if (b"length" in info) == (b"files" in info) or len(info.get(b"pieces", b"x")) % 20:
            bad.append("C06.structure.v1")
    if version in (2, 3):
        if info.get(b"meta version") != 2 or not isinstance(info.get(b"file tree"), dict) or not isinstance(meta.get(b"piece layers"), dict):
            bad.append("C06.structure.v2")
        elif any(len(v) % 32 for v in meta[b"piece layers"].values()):
            bad.append("C06.structure.layers")
    return bad


def replay(params, model, notes, workdir, seed):
    import io
    import contextlib
    from harness import c07
    mods = cr.real_torrentfile()
    bad = []
    if params.get("unenc"):
        which = params["which"]
        root, data = cr.materialize(workdir, "flat2", cr.concrete_sizes("flat2", model), seed)
        out = os.path.join(workdir, "x.torrent")
        pre = int(model.get("outfile-exists", 0))
        old = refconc.bencode({"announce": "http://old/a", "info": {"length": 1, "name": "old", "piece length": 16384, "pieces": b"x" * 20}})
        if pre:
            with open(out, "wb") as f:
                f.write(old)
        where = ["comment", "source", "announce"][int(model.get("bad-field", 0))]
        kw = {where: 1.5} if where != "announce" else {"announce": ["http://t/a", 2.5]}
        try:
            with contextlib.redirect_stdout(io.StringIO()):
                t = cr.real_create(which, path=root, piece_length=16384, outfile=out, **kw)
                t.write()
        except Exception:  # noqa: BLE001
            pass
        if not os.path.exists(out):
            return [] if not pre else ["C06.failed-create.complete (output removed)"]
        try:
            refconc.bdecode_strict(open(out, "rb").read())
        except refconc.BencodeError as ex:
            return ["C06.failed-create.complete (%s)" % ex]
        return []
    if "which" in params:
        which, shape = params["which"], params["shape"]
        version = {"1": 1, "2a": 2, "2c": 2, "3a": 3, "3c": 3}[which]
        sizes = cr.concrete_sizes(shape, model)
        kw = {}
        pres = notes.get("present", {})
        a = int(pres.get("announce", 0))
        if a == 1:
            kw["announce"] = "http://t/a"
        elif a == 2:
            kw["announce"] = ["http://t/a", "http://t/b"]
        if int(pres.get("comment", 0)):
            kw["comment"] = "a comment"
        if int(pres.get("source", 0)):
            kw["source"] = "src"
        if int(pres.get("private", 0)):
            kw["private"] = True
        if int(pres.get("url_list", 0)):
            kw["url_list"] = ["http://w/s"]
        if int(pres.get("httpseeds", 0)):
            kw["httpseeds"] = ["http://h/s"]
        out = os.path.join(workdir, "x.torrent")
        # digest order is content dependent: try a few contents so that the real roots realise the model's order
        for attempt in range(24):
            d = os.path.join(workdir, "try%d" % attempt)
            root, data = cr.materialize(d, shape, sizes, seed + 1000 * attempt)
            with contextlib.redirect_stdout(io.StringIO()):
                if params.get("align"):
                    kw["align"] = True
                t = cr.real_create(which, path=root, piece_length=16384, outfile=out, **kw)
                t.write()
            bad = _strict(out, version)
            for i in range(params.get("edits", 0)):
                req = {}
                for f, opts in (("comment", ["unnamed", "cleared", "str"]), ("source", ["unnamed", "str"]),
                                ("announce", ["unnamed", "cleared", "list2"]), ("private", ["unnamed", "true"])):
                    k = opts[int(model.get("e%d.%s" % (i, f), 0))]
                    v = c07.conc_value(k, f, 1, "e%d" % i)
                    if v is not None:
                        req[f] = v
                mods["torrentfile.edit"].edit_torrent(out, dict(req))
                bad += _strict(out, version)
            if bad:
                return bad
        return bad
    if params.get("swap"):
        from harness import c07 as _c07
        version = params["version"]
        base = _c07.conc_base(version, dict(model, **{"base.announce": 1, "base.private": 0, "base.layers": 1}))
        mpath = os.path.join(workdir, "m.torrent")
        with open(mpath, "wb") as f:
            f.write(refconc.bencode(base))
        req = {}
        for f_, opts in SWAP_FIELDS.items():
            v = _c07.conc_value(opts[int(model.get("e0.%s" % f_, 0))], f_, 1, "e0")
            if v is not None:
                req[f_] = v
        try:
            mods["torrentfile.edit"].edit_torrent(mpath, dict(req))
        except Exception as ex:  # noqa: BLE001
            return ["C06.edit.no-exception: %s" % ex]
        return _strict(mpath, version)
    if params.get("mixed"):
        from harness import c07 as _c07
        version = params["version"]
        mpath = os.path.join(workdir, "m.torrent")
        with open(mpath, "wb") as f:
            f.write(refconc.bencode(_mixed_base(version, conc=True)))
        req = {}
        for f_, opts in {"announce": ["unnamed", "str"], "comment": ["unnamed", "str"], "private": ["unnamed", "true"]}.items():
            v = _c07.conc_value(opts[int(model.get("e0.%s" % f_, 0))], f_, max(1, int(model.get("reqe0.%s.words" % f_, 1))), "e0")
            if v is not None:
                req[f_] = v
        try:
            mods["torrentfile.edit"].edit_torrent(mpath, dict(req))
        except Exception as ex:  # noqa: BLE001
            return ["C06.edit.no-exception: %s" % ex]
        return _strict(mpath, version)
    if "n" not in params and "which" not in params and "foreign" in model:
        from harness import c07 as _c07
        version = params["version"]
        base = _c07.conc_base(version, {"base.comment-top": 1})
        base["comment"] = "top level comment"
        variant = int(model.get("foreign", 0))
        if variant in (0, 2):
            base["announce"] = "http://only/announce"
        if variant in (1, 2):
            base["source"] = "top source"
        mpath = os.path.join(workdir, "m.torrent")
        with open(mpath, "wb") as f:
            f.write(refconc.bencode(base))
        req = {}
        for f_, opts in {"announce": ["unnamed", "list2", "str"], "comment": ["unnamed", "str"], "source": ["unnamed", "str"],
                         "private": ["unnamed", "true"]}.items():
            v = _c07.conc_value(opts[int(model.get("e0.%s" % f_, 0))], f_, max(1, int(model.get("reqe0.%s.words" % f_, 1))), "e0")
            if v is not None:
                req[f_] = v
        try:
            mods["torrentfile.edit"].edit_torrent(mpath, dict(req))
        except Exception as ex:  # noqa: BLE001
            return ["C06.edit.no-exception: %s" % ex]
        return _strict(mpath, version)
    if "n" not in params:
        return _replay_lengths(params, model, workdir, mods)
    version, n = params["version"], params["n"]
    allp = int(model.get("base.preset", 0))
    base = c07.conc_base(version, {"base.%s" % k: allp for k in ALLKEYS})
    mpath = os.path.join(workdir, "m.torrent")
    with open(mpath, "wb") as f:
        f.write(refconc.bencode(base))
    for i in range(n):
        req = {}
        for f, opts in STEP_FIELDS[i].items():
            k = opts[int(model.get("e%d.%s" % (i, f), 0))]
            v = c07.conc_value(k, f, max(1, int(model.get("reqe%d.%s.words" % (i, f), 1))), "e%d" % i)
            if v is not None:
                req[f] = v
        try:
            mods["torrentfile.edit"].edit_torrent(mpath, dict(req))
        except Exception as ex:  # noqa: BLE001
            return ["C06.edit.no-exception: %s" % ex]
        bad += _strict(mpath, version)
        if bad:
            return bad
    return bad


def _replay_lengths(params, model, workdir, mods):
    """Strings get the lengths the solver chose (benlen = 2 + number of characters)."""
    from harness import c07

    def L(name, default=5):
        return max(1, int(model.get("benlen.%s" % name, default + 2)) - 2)
    version = params["version"]
    base = c07.conc_base(version, {"base.%s" % k: 1 for k in ALLKEYS})
    base["announce"] = "a" * L("base.announce")
    base["announce-list"] = [[base["announce"]]]
    base["httpseeds"] = ["h" * L("base.httpseed")]
    base["url-list"] = ["w" * L("base.webseed")]
    base["info"]["comment"] = "c" * L("base.comment")
    base["info"]["source"] = "s" * L("base.source")
    mpath = os.path.join(workdir, "m.torrent")
    with open(mpath, "wb") as f:
        f.write(refconc.bencode(base))
    req = {}
    for f_, opts in LEN_STEP.items():
        k = opts[int(model.get("e0.%s" % f_, 0))]
        if k == "cleared":
            req[f_] = ""
        elif k == "str":
            req[f_] = "n" * L("reqe0.%s" % f_)
        elif k == "list1":
            req[f_] = ["l" * L("reqe0.%s.0" % f_)]
    try:
        mods["torrentfile.edit"].edit_torrent(mpath, dict(req))
    except Exception as ex:  # noqa: BLE001
        return ["C06.edit.no-exception: %s" % ex]
    return _strict(mpath, version)


def canaries(tier):
    return [
        ("sort_meta: piece layers left in traversal order", {"torrent": [(
            "            meta[\"piece layers\"] = dict(sorted(list(layers.items())))", "            meta[\"piece layers\"] = layers")]},
         ["create.2a.flat2", "create.3a.order2"]),
        ("edit: top-level dictionary not re-sorted", {"edit": [("    meta = dict(sorted(meta.items()))\n", "")]},
         ["edit2.v1", "create+edit.2a"]),
        ("edit: new metafile written over a copy of the old one without truncation", {"edit": [
            ("import os\nimport logging", "import os\nimport shutil\nimport logging"),
            ("        pyben.dump(meta, tempname)\n", "        shutil.copy2(metafile, tempname)\n        with open(tempname, \"r+b\") as tempfd:\n            pyben.dump(meta, tempfd)\n")]},
         ["edit-lengths.*"]),
        ("MetaFile: private stored as a boolean", {"torrent": [(
            "            self.meta[\"info\"][\"private\"] = 1", "            self.meta[\"info\"][\"private\"] = True")]},
         ["create-opts.1", "create.1.single"]),
        ("TorrentFile: info.length written next to info.files", {"torrent": [(
            "        if os.path.isfile(self.path):\n            info[\"length\"] = size\n        elif not self.align:",
            "        info[\"length\"] = size\n        if os.path.isfile(self.path):\n            pass\n        elif not self.align:")]},
         ["create.1.flat2"]),
    ]


if __name__ == "__main__":
    from harness import common
    raise SystemExit(common.main("harness.c06"))
