"""Shared rebuild world for C13 / C14 / C19."""
import os

from symx.core import tb, conj, disj, Unsupported
from symx.abuf import ABuf
from symx.afs import AFS
from symx.loader import World, BenTok
from symx import refs

from harness import creators as cr
from harness import recheck as rk
from harness.creators import SHAPES
import refconc

MODULES = ["rebuild", "utils", "hasher", "commands"]

# search layouts: payload rel path -> location template ("{n}" = file name)
LAYOUTS = {
    "flat": lambda rel, i: "/src/" + rel.split("/")[-1],
    "deep": lambda rel, i: ("/src/x/y/" if i % 2 == 0 else "/src/") + rel.split("/")[-1],
    "two": lambda rel, i: ("/src1/" if i % 2 == 0 else "/src2/q/") + rel.split("/")[-1],
    "mirror": lambda rel, i: "/src/" + rel,                 # same structure as the torrent
    "named-dir": lambda rel, i: "/src/%s/%s" % (rel.split("/")[-1], rel.split("/")[-1]),   # inside a directory named like the file
    # relations between the search paths themselves
    "prefix": lambda rel, i: ("/pool/disk1/" if i % 2 == 0 else "/pool/disk10/") + rel.split("/")[-1],   # one path is a string prefix of the other
    "nested": lambda rel, i: ("/src/x/y/" if i % 2 == 0 else "/src/") + rel.split("/")[-1],             # one search path inside the other
    "repeat": lambda rel, i: "/src/" + rel.split("/")[-1],                                               # the same path given twice
    "spelled": lambda rel, i: ("/src1/" if i % 2 == 0 else "/src2/q/") + rel.split("/")[-1],             # trailing separator / dot segments
}
SEARCH = {"flat": ["/src"], "deep": ["/src"], "two": ["/src1", "/src2"], "mirror": ["/src"], "named-dir": ["/src"],
          "prefix": ["/pool/disk1", "/pool/disk10"], "nested": ["/src", "/src/x/y"], "repeat": ["/src", "/src"],
          "spelled": ["/src1/", "/src2/q/../../src2"]}


MDIMS = {
    "version": [1, 2, 3],
    "shape": ["single", "dir1", "flat2", "samedir2", "nested3", "samename2", "ungrouped3", "order2", "selfname", "selfdir"] +
             sorted(k for k in SHAPES if "~" in k and k.split("~")[0] == "flat2"),
    "layout": sorted(LAYOUTS),
    "decoy": ["none", "before", "after"],
}
TNAMES = ["name", "..cache", "100% done", "name.torrent", "é 中 [x]"]


def matrix_rows(tier, prop, per_run=8):
    """Pairwise covering rows over the rebuild configuration dimensions (see harness/matrix.py) as parameter
    dictionaries of the property's `job`."""
    from harness import matrix
    dims = dict(MDIMS)
    if prop == "C13":
        dims["via"] = ["assembler", "cli"]
        dims["tname"] = TNAMES
    else:
        dims["pre"] = ["empty", "correct", "wrong-full", "shorter", "unrelated"]

    def ok(row):
        if row["shape"] == "ungrouped3" and row["version"] != 1:
            return False
        if row["shape"] == "samename2" and row["layout"] in ("flat", "repeat", "named-dir"):
            return False         # two different files would have to share one location
        if row["shape"] == "single" and row["layout"] == "mirror":
            return False
        if row["shape"] == "single" and row.get("tname", "name") != "name":
            return False         # the search file would have to carry the torrent's name (the harness places it as 'name')
        if row["shape"] == "ungrouped3" and row["layout"] in ("deep", "nested"):
            return False         # the file 'x' would collide with the directory /src/x of these layouts
        return True
    if prop not in _MROWS:
        _MROWS[prop] = matrix.pairwise(dims, ok)
    rows = _MROWS[prop]
    if tier != "thorough":
        seed = int(os.environ.get("VERIF_SEED", "0") or 0)
        n = len(rows)
        rows = [rows[i] for i in sorted({(seed * per_run * 7 + i * (n // per_run + 1)) % n for i in range(per_run)})]
    out = []
    for row in rows:
        params = dict(version=row["version"], shape=row["shape"], P=16384, K=1, layout=row["layout"], decoy=row["decoy"])
        if prop == "C13":
            params.update(via=row["via"], tname=row["tname"])
            tail = "%s.t%d" % (row["via"], TNAMES.index(row["tname"]))
        else:
            params.update(pre=row["pre"])
            tail = "pre-" + row["pre"]
        out.append(("matrix.v%d.%s.%s.decoy-%s.%s" % (row["version"], row["shape"], row["layout"], row["decoy"], tail), "job", params))
    return out


_MROWS = {}


def build_world(E, version, shape, P, K, layout, decoy="none", dest_pre="empty", order="reversed", lo=0, names=None,
                tname="name", damage=None):
    """Returns (fs, sizes, meta, expected) where expected maps destination path -> content ABuf."""
    rels = names or SHAPES[shape]
    fs = AFS(order=order)
    sizes = {r: E.int("s%d" % i, lo, K * P) for i, r in enumerate(rels)}
    E.note("shape", shape)
    E.assume(disj(*[s > 0 for s in sizes.values()]))
    place = LAYOUTS[layout]
    for i, r in enumerate(rels):
        if damage == "first-missing":
            if i == 0:
                continue        # only its decoy is available
            fs.add(place(r, i), cr.fid_of(shape, r, names), sizes[r])
            continue
        if damage and i == len(rels) - 1:
            # the last payload file is not intact in the search directories
            if damage == "missing":
                continue
            o = E.int("dmg_off", 0, None)
            E.assume(o < sizes[r])
            fid = cr.fid_of(shape, r, names)
            fs.add_content(place(r, i), ABuf.of([("F", fid, 0, o), ("G", ("flip", i), 0, 1), ("F", fid, o + 1, sizes[r] - o - 1)]))
            continue
        fs.add(place(r, i), cr.fid_of(shape, r, names), sizes[r])
    for d in SEARCH[layout]:
        cur = ""
        for comp in d.split("/"):          # every directory the (possibly un-normalised) spelling passes through exists
            if comp in ("", "."):
                continue
            cur = os.path.dirname(cur) if comp == ".." else cur + "/" + comp
            fs.mkdirs(cur or "/")
    fs.add(os.path.normpath(SEARCH[layout][0]) + "/unrelated.bin", ("u", 0), 123)
    if decoy == "partial":
        # same name, same size, first piece identical to the real file, the rest different; listed before the real one
        r0 = rels[0]
        E.assume(sizes[r0] > P)
        fid0 = cr.fid_of(shape, r0, names)
        fs.add_content(SEARCH[layout][0] + "/A-decoy/" + r0.split("/")[-1],
                       ABuf.of([("F", fid0, 0, P), ("F", ("decoy", 0), P, sizes[r0] - P)]))
    elif decoy != "none":
        # a same-named, same-sized file with different bytes for payload file 0, in a sibling directory that
        # lists before ('A') or after ('zz') the real one
        r0 = rels[0]
        sub = "/A-decoy/" if decoy == "before" else "/zz-decoy/"
        fs.add(SEARCH[layout][0] + sub + r0.split("/")[-1], ("decoy", 0), sizes[r0])
    meta = rk.ref_meta(E, version, shape, sizes, P, False, True)
    if tname != "name":
        meta["info"]["name"] = tname
    fs.add_token("/t/m.torrent", BenTok(meta))
    fs.mkdirs("/dest")
    expected = {}
    single = shape == "single"
    for r in rels:
        dpath = "/dest/" + (tname if single else tname + "/" + r.split("/", 1)[1])
        expected[dpath] = (r, rk.expected_content(shape, r, sizes))
    return fs, sizes, meta, expected


def run_rebuild(E, w, metas, search, dest, tag, via="assembler"):
    try:
        if via == "assembler":
            a = w.mod("rebuild").Assembler(list(metas), list(search), dest)
            return True, a.assemble_torrents()
        import types
        ns = types.SimpleNamespace(metafiles=list(metas), destination=dest, contents=list(search))
        return True, w.mod("commands").rebuild(ns)
    except Unsupported:
        raise
    except Exception as ex:  # noqa: BLE001
        E.fail(tag + ".no-exception", "%s: %s" % (type(ex).__name__, ex))
        return False, None


def check_restored(E, fs, sizes, expected, count, tag):
    """C13: every non-empty payload file is in the destination with its exact content."""
    present = 0
    for dpath, (rel, content) in expected.items():
        s = sizes[rel]
        node = fs.files.get(dpath)
        if tb(s == 0):
            if node is not None:
                present += 1
            continue      # empty files carry no data to verify; their presence is not judged
        if E.check(node is not None, tag + ".file-present", "%s was not rebuilt although an intact copy is available" % dpath):
            present += 1
            E.check(node.content == content, tag + ".file-content", "%s does not hold the torrent's bytes" % dpath)
    if count is not None:
        E.check(count <= len([p for p in expected if p in fs.files]), tag + ".count-vs-present",
                "rebuild counted %r files, %d of the torrent's files are present" % (count, present))


# ------------------------------------------------------------------ concrete side

def conc_world(params, model, workdir, seed, hostile=None):
    shape, P, version = params["shape"], params["P"], params["version"]
    rels = SHAPES[shape]
    layout = params.get("layout", "flat")
    sizes = cr.concrete_sizes(shape, model)
    data = {r: refconc.content(cr.fid_of(shape, r), sizes[r], seed) for r in rels}
    place = LAYOUTS[layout]
    for i, r in enumerate(rels):
        dmg = params.get("damage")
        if dmg == "first-missing":
            if i != 0:
                refconc.write_file(workdir + place(r, i), data[r])
            continue
        if dmg and i == len(rels) - 1:
            if dmg == "missing":
                continue
            refconc.write_file(workdir + place(r, i), refconc.flip(data[r], int(model.get("dmg_off", 0))))
            continue
        refconc.write_file(workdir + place(r, i), data[r])
    for d in SEARCH[layout]:
        os.makedirs(workdir + d, exist_ok=True)
    refconc.write_file(workdir + SEARCH[layout][0] + "/unrelated.bin", b"u" * 123)
    decoy = params.get("decoy", "none")
    if decoy == "partial":
        r0 = rels[0]
        P_ = params["P"]
        refconc.write_file(workdir + SEARCH[layout][0] + "/A-decoy/" + r0.split("/")[-1],
                           data[r0][:P_] + refconc.content(("decoy", 0), sizes[r0], seed)[P_:])
    elif decoy != "none":
        r0 = rels[0]
        sub = "/A-decoy/" if decoy == "before" else "/zz-decoy/"
        refconc.write_file(workdir + SEARCH[layout][0] + sub + r0.split("/")[-1], refconc.content(("decoy", 0), sizes[r0], seed))
    single = shape == "single"
    order = rk.v1_order(shape) if version == 1 else cr.tree_order(rels)
    files = [((r.split("/")[1:] if not single else ["name"]), data[r]) for r in order]
    meta = refconc.build_meta(files, P, version, single=single)
    if single and version == 2:
        meta["info"]["length"] = len(data[rels[0]])
    tname = params.get("tname", "name")
    meta["info"]["name"] = tname
    os.makedirs(workdir + "/t", exist_ok=True)
    with open(workdir + "/t/m.torrent", "wb") as f:
        f.write(refconc.bencode(meta))
    os.makedirs(workdir + "/dest", exist_ok=True)
    expected = {}
    for r in rels:
        dpath = "/dest/" + (tname if single else tname + "/" + r.split("/", 1)[1])
        expected[dpath] = data[r]
    return sizes, data, expected


def conc_rebuild(workdir, layout, via="assembler"):
    import io
    import contextlib
    mods = cr.real_torrentfile()
    search = [workdir + d for d in SEARCH[layout]]
    with contextlib.redirect_stdout(io.StringIO()):
        if via == "assembler":
            a = mods["torrentfile.rebuild"].Assembler([workdir + "/t/m.torrent"], search, workdir + "/dest")
            return a.assemble_torrents()
        import types
        return mods["torrentfile.commands"].rebuild(types.SimpleNamespace(metafiles=[workdir + "/t/m.torrent"],
                                                                          destination=workdir + "/dest", contents=search))
