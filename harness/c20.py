"""C20: a create option means the same via flag, configuration file or keyword."""
import os
import types

from symx.core import Unsupported
from symx.abuf import ABuf
from symx.afs import AFS
from symx.loader import World, BenTok, ben_equal
from symx.ostr import OStr

from harness import creators as cr
from harness import editw as ew
import refconc

PROPERTY = "C20"
MODULES = ["commands", "cli", "torrent"]
ASSUMPTIONS = [
    "flag route: the real argparse parser built by cli.execute is run on sentinel arguments to learn, per option, which "
    "Namespace attribute receives the value and in which shape (scalar / list); the sentinel is then replaced by an "
    "opaque string. argparse tokenisation itself is contract, not code under analysis",
    "config route: real commands.find_config_file/parse_config_file on an INI token; configparser is modelled as a "
    "mapping with lower-cased keys and string values (its documented behaviour); a list-valued option is one opaque "
    "string whose split('\\n') yields an empty first field and the element strings (how configparser renders "
    "continuation lines)",
    "option values are opaque strings (any length/alphabet) except where the option is numeric or a path "
    "(piece-length, meta-version, out, align: concrete values); forks on .lower()=='true'/'false'",
    "content-path recovery is exercised through the real parser on concrete argument vectors with the positional "
    "swallowed by each list-valued flag (every order of the three flags)",
    "payload: one file of symbolic size in [1, 2P]",
]
WITNESSES = ["config value equal to 'true'", "list option with two values", "positional swallowed by a list flag"]

# option -> (flag, config key, keyword, kind)
OPTIONS = {
    "announce": ("--announce", "announce", "announce", "list"),
    "tracker": ("--tracker", "tracker", "announce", "list"),
    "web-seed": ("--web-seed", "web-seed", "url_list", "list"),
    "http-seed": ("--http-seed", "http-seed", "httpseeds", "list"),
    "source": ("--source", "source", "source", "str"),
    "comment": ("--comment", "comment", "comment", "str"),
    "private": ("--private", "private", "private", "flag"),
    "align": ("--align", "align", "align", "flag"),
    "piece-length": ("--piece-length", "piece-length", "piece_length", "value:15"),
    "meta-version": ("--meta-version", "meta-version", "meta_version", "value:2"),
    "out": ("--out", "out", "outfile", "value:/out/other.torrent"),
    "out-dir": ("--out", "out", "outfile", "value:/out/"),                 # the documented directory form: <dir>/<name>.torrent
    "out-relative": ("-o", "out", "outfile", "value:sub/rel.torrent"),
}


def BOUNDS(tier):
    return {"options": sorted(OPTIONS), "values": "opaque strings; lists of 1-2; flags on; numeric/path options at one concrete value each",
            "orders": "list-valued flags before the positional in all 6 orders of (announce, web-seed, http-seed), 1-2 values each",
            "versions": "meta-version 1 (TorrentFile) and 2/3 (TorrentAssembler) for the routed options",
            "outside": "combinations of more than two options in one request; abbreviated flags; INI syntax"}


def jobs(tier):
    import itertools
    out = []
    for opt in OPTIONS:
        for mv in ("1",) if (tier == "quick" and opt not in ("web-seed", "comment")) else ("1", "3"):
            out.append(("route.%s.v%s" % (opt, mv), "job_route", dict(opt=opt, mv=mv)))
    for mv in ("1", "3"):
        out.append(("out-inside-content.v%s" % mv, "job_out_inside", dict(mv=mv)))
    # subsets of options in one request (pairs: all in the thorough tier, a seed-rotated handful in the quick tier; one
    # request carrying every option)
    names = [o for o in OPTIONS if o not in ("tracker", "out-dir", "out-relative")]
    pairs = [list(p) for p in itertools.combinations(names, 2)]
    if tier == "quick":
        seed = int(os.environ.get("VERIF_SEED", "0") or 0)
        pairs = [pairs[(seed * 6 * 5 + i * 9) % len(pairs)] for i in range(6)]
    for i, pr in enumerate(pairs):
        out.append(("subset.%s" % "+".join(pr), "job_subset", dict(opts=pr, mv="1" if i % 2 else "3")))
    if tier != "quick":
        for i, tr in enumerate(itertools.combinations(names, 3)):
            out.append(("subset.%s" % "+".join(tr), "job_subset", dict(opts=list(tr), mv=("1", "2", "3")[i % 3])))
        for opt in OPTIONS:          # every single option also for meta version 2
            out.append(("route.%s.v2" % opt, "job_route", dict(opt=opt, mv="2")))
    out.append(("subset.all.v1", "job_subset", dict(opts=[o for o in names if o != "meta-version"], mv="1")))
    out.append(("subset.all.v2", "job_subset", dict(opts=[o for o in names if o not in ("meta-version", "align")], mv="2")))
    for mv in ("1", "3"):
        out.append(("default-config-files.v%s" % mv, "job_default_config", dict(mv=mv, default_cfg=True)))
    for mv in ("1", "2"):
        out.append(("config-rewritten-between-creates.v%s" % mv, "job_config_twice", dict(mv=mv, twice=True)))
    import itertools
    for i, order in enumerate(itertools.permutations(["announce", "web-seed", "http-seed"])):
        out.append(("swallow.%s" % "-".join(o[0] for o in order), "job_swallow", dict(order=list(order), nvals=1 + i % 2)))
    return out


def mkfs(E):
    fs = AFS(cwd="/work")
    s = E.int("s0", 1, 2 * 16384)
    fs.add("/data/name", ("f", 0), s)
    fs.mkdirs("/out")
    fs.mkdirs("/cfg")
    fs.mkdirs("/work/sub")
    return fs, s


def learn_contract(w, flag, nvals, fixed=None):
    """Run the real parser on sentinels; returns (defaults dict, dest, shape)."""
    cli, C = w.mod("cli"), w.mod("commands")
    captured = []
    orig = C.create
    C.create = lambda args: captured.append(args) or args
    try:
        sent = list(fixed) if fixed else ["@S%d@" % i for i in range(nvals)]
        cli.execute(["create", "-o", "/out/x.torrent", "/data/name"])
        base = dict(vars(captured[-1]))
        argv = ["create", "-o", "/out/x.torrent", "/data/name", flag] + sent
        cli.execute(argv)
        got = dict(vars(captured[-1]))
    finally:
        C.create = orig
    diff = {k: v for k, v in got.items() if base.get(k) != v}
    return base, diff, sent


def strip(meta):
    return {k: v for k, v in meta.items() if k != "creation date"}


def run_create(E, w, ns, tag):
    try:
        res = w.mod("commands").create(ns)
        return res.meta
    except Unsupported:
        raise
    except Exception as ex:  # noqa: BLE001
        E.fail(tag + ".no-exception", "%s: %s" % (type(ex).__name__, ex))
        return None


def job_route(E, opt, mv, _mutants=None):
    flag, ckey, kw, kind = OPTIONS[opt]
    nvals = 0
    if kind == "list":
        nvals = 1 + E.choice("nvals", 2)
        vals = [_plain(OStr("v%d" % i, nonempty=True)) for i in range(nvals)]
        value = vals
        if nvals == 2:
            E.witnesses["list option with two values"] = True
    elif kind == "str":
        value = _plain(OStr("v0", nonempty=True))
        nvals = 1
    elif kind == "flag":
        value = True
    else:
        value = kind.split(":", 1)[1]
        nvals = 1
    metas = {}
    outfile = "/out/x.torrent"
    # ---- keyword route
    fs, s = mkfs(E)
    w = World(fs, mutants=_mutants)
    kwargs = dict(path="/data/name", outfile=outfile, meta_version=mv, progress=0)
    kwargs[kw] = value
    try:
        T = w.mod("torrent")
        t = T.TorrentFile(**kwargs) if kwargs.get("meta_version") == "1" else T.TorrentAssembler(**kwargs)
        o, m = t.write()
        metas["keyword"] = (m, o)
    except Unsupported:
        raise
    except Exception as ex:  # noqa: BLE001
        E.fail("C20.keyword.no-exception", "%s: %s" % (type(ex).__name__, ex))
        return
    # ---- flag route (contract learnt from the real parser)
    fs, _ = mkfs(E)
    w = World(fs, mutants=_mutants)
    try:
        base, diff, sent = learn_contract(w, flag, nvals if kind != "flag" else 0, [value] if kind.startswith("value:") else None)
    except SystemExit as ex:
        E.fail("C20.flag.parser-accepts", "the parser rejects %s: %s" % (flag, ex))
        return
    ns = dict(base)
    for k, v in diff.items():
        if isinstance(v, list):
            ns[k] = [(value[sent.index(x)] if isinstance(value, list) else value) if x in sent else x for x in v]
        elif v in sent:
            ns[k] = value[0] if isinstance(value, list) else value
        else:
            ns[k] = v
    ns["meta_version"] = mv if opt != "meta-version" else ns["meta_version"]
    ns["progress"] = "0"
    m = run_create(E, w, types.SimpleNamespace(**ns), "C20.flag")
    if m is None:
        return
    metas["flag"] = (m, None)
    flag_files = sorted(p for p in fs.files if p.endswith(".torrent"))
    # ---- config route
    fs, _ = mkfs(E)
    if kind == "list":
        c = OStr("cfg", nonempty=True)
        c._split["\n"] = [OStr("cfg.lead", nonempty=False)] + list(value)
        cval = c
    elif kind == "flag":
        cval = "true"
    else:
        cval = value
    fs.add_token("/cfg/t.ini", ("INI", {"config": {ckey: cval}}))
    w = World(fs, mutants=_mutants)
    ns2 = dict(base)
    ns2.update(config=True, config_path="/cfg/t.ini", progress="0")
    if opt != "meta-version":
        ns2["meta_version"] = mv
    m = run_create(E, w, types.SimpleNamespace(**ns2), "C20.config")
    if m is None:
        return
    metas["config"] = (m, None)
    cfg_files = sorted(p for p in fs.files if p.endswith(".torrent"))
    if isinstance(value, OStr) and value._consts.get(("true", True)):
        E.witnesses["config value equal to 'true'"] = True
    # ---- the three routes agree, and the value lands in its documented field
    k = strip(metas["keyword"][0])
    for route in ("flag", "config"):
        E.check(ben_equal(strip(metas[route][0]), k, ordered=False), "C20.%s-equals-keyword" % route,
                "option %s=%r: %s route gives %s, keyword route gives %s" % (opt, value, route, _brief(metas[route][0]), _brief(metas["keyword"][0])))
    meta = metas["keyword"][0]
    info = meta["info"]
    if opt in ("announce", "tracker"):
        E.check(meta.get("announce") is value[0] and ben_equal(meta.get("announce-list"), [value]), "C20.field.announce")
    elif opt == "web-seed":
        E.check(ben_equal(meta.get("url-list"), value), "C20.field.url-list")
    elif opt == "http-seed":
        E.check(ben_equal(meta.get("httpseeds"), value), "C20.field.httpseeds")
    elif opt in ("source", "comment"):
        E.check(info.get(opt) is value, "C20.field." + opt)
    elif opt == "private":
        E.check(info.get("private") == 1, "C20.field.private")
    elif opt == "piece-length":
        E.check(info.get("piece length") == 2 ** 15, "C20.field.piece-length")
    elif opt == "meta-version":
        E.check(info.get("meta version") == 2, "C20.field.meta-version")
    elif opt in ("out", "out-dir", "out-relative"):
        written = {"out": value, "out-dir": "/out/name.torrent", "out-relative": "/work/sub/rel.torrent"}[opt]
        if opt == "out":
            E.check(metas["keyword"][1] == value, "C20.field.out.keyword")
        E.check(flag_files == [written], "C20.field.out.flag", "flag route wrote %r" % (flag_files,))
        E.check(cfg_files == [written], "C20.field.out.config", "config route wrote %r" % (cfg_files,))
    for k_ in WITNESSES:
        if kind != "list":
            E.witnesses.setdefault("list option with two values", True)
        E.witnesses.setdefault("positional swallowed by a list flag", True)
        if kind not in ("str",):
            E.witnesses.setdefault("config value equal to 'true'", True)


def _brief(meta):
    m = strip(meta)
    return {k: (v if k != "info" else {a: b for a, b in v.items() if a not in ("pieces", "file tree", "files")}) for k, v in m.items()
            if k != "piece layers"}


def job_out_inside(E, mv, _mutants=None):
    """The output file lies inside the content directory: all routes must still
    describe the same payload (the payload as it was when create started)."""
    P = 16384
    metas = {}
    for route in ("keyword", "flag", "config"):
        fs = AFS(cwd="/work")
        s0 = E.int("s0", 1, 2 * P)
        s1 = E.int("s1", 0, P)
        fs.add("/data/name/a", ("f", 0), s0)
        fs.add("/data/name/b", ("f", 1), s1)
        fs.mkdirs("/cfg")
        w = World(fs, mutants=_mutants)
        try:
            if route == "keyword":
                T = w.mod("torrent")
                kw = dict(path="/data/name", outfile="/data/name/name.torrent", meta_version=mv, progress=0, piece_length=14)
                t = T.TorrentFile(**kw) if mv == "1" else T.TorrentAssembler(**kw)
                o, m = t.write()
            elif route == "flag":
                m = w.mod("cli").execute(["create", "--prog", "0", "--meta-version", mv, "--piece-length", "14", "-o", "/data/name/name.torrent", "/data/name"]).meta
            else:
                fs.add_token("/cfg/t.ini", ("INI", {"config": {"out": "/data/name/name.torrent"}}))
                m = w.mod("cli").execute(["create", "--prog", "0", "--meta-version", mv, "--piece-length", "14", "--config", "--config-path", "/cfg/t.ini", "/data/name"]).meta
        except Unsupported:
            raise
        except SystemExit as ex:
            E.fail("C20.out-inside.parser-accepts", str(ex))
            return
        except Exception as ex:  # noqa: BLE001
            E.fail("C20.out-inside.no-exception", "%s route: %s: %s" % (route, type(ex).__name__, ex))
            return
        metas[route] = strip(m)
    for route in ("flag", "config"):
        E.check(ben_equal(metas[route], metas["keyword"], ordered=False), "C20.out-inside.%s-equals-keyword" % route,
                "%s route gives %s, keyword route gives %s" % (route, _brief(metas[route]), _brief(metas["keyword"])))
    for k_ in WITNESSES:
        E.witnesses.setdefault(k_, True)


def _plain(o):
    """Option values have no surrounding whitespace (a configuration file cannot express one that has: configparser
    strips values), so the three routes can be given the same value."""
    o._outer_ws = False
    return o


def _value(opt, tag):
    kind = OPTIONS[opt][3]
    if kind == "list":
        return [_plain(OStr("%s.v0" % tag, nonempty=True)), _plain(OStr("%s.v1" % tag, nonempty=True))]
    if kind == "str":
        return _plain(OStr("%s.v" % tag, nonempty=True))
    if kind == "flag":
        return True
    return kind.split(":", 1)[1]


def job_subset(E, opts, mv, _mutants=None):
    """Several options in one request: keyword, flag and configuration-file routes give the same metafile."""
    values = {o: _value(o, o) for o in opts}
    outfile = values.get("out", "/out/x.torrent")
    metas = {}
    # keyword route
    fs, s = mkfs(E)
    w = World(fs, mutants=_mutants)
    kwargs = dict(path="/data/name", outfile=outfile, meta_version=mv, progress=0)
    for o in opts:
        kwargs[OPTIONS[o][2]] = values[o]
    try:
        T = w.mod("torrent")
        t = T.TorrentFile(**kwargs) if kwargs.get("meta_version") == "1" else T.TorrentAssembler(**kwargs)
        o_, m = t.write()
        metas["keyword"] = m
    except Unsupported:
        raise
    except Exception as ex:  # noqa: BLE001
        E.fail("C20.subset.keyword.no-exception", "%s: %s" % (type(ex).__name__, ex))
        return
    # flag route: the contract of every flag learnt separately from the real parser, then combined
    fs, _ = mkfs(E)
    w = World(fs, mutants=_mutants)
    ns = None
    try:
        for o in opts:
            flag, ckey, kw, kind = OPTIONS[o]
            v = values[o]
            n = len(v) if isinstance(v, list) else (0 if kind == "flag" else 1)
            base, diff, sent = learn_contract(w, flag, n, [v] if kind.startswith("value:") else None)
            if ns is None:
                ns = dict(base)
            for k, dv in diff.items():
                if isinstance(dv, list):
                    ns[k] = [(v[sent.index(x)] if isinstance(v, list) else v) if x in sent else x for x in dv]
                elif dv in sent:
                    ns[k] = v[0] if isinstance(v, list) else v
                else:
                    ns[k] = dv
    except SystemExit as ex:
        E.fail("C20.subset.flag.parser-accepts", str(ex))
        return
    if "meta-version" not in opts:
        ns["meta_version"] = mv
    ns["progress"] = "0"
    m = run_create(E, w, types.SimpleNamespace(**ns), "C20.subset.flag")
    if m is None:
        return
    metas["flag"] = m
    # configuration file route
    fs, _ = mkfs(E)
    cfg = {}
    for o in opts:
        flag, ckey, kw, kind = OPTIONS[o]
        v = values[o]
        if kind == "list":
            c = OStr("cfg.%s" % o, nonempty=True)
            c._split["\n"] = [OStr("cfg.%s.lead" % o, nonempty=False)] + list(v)
            cfg[ckey] = c
        elif kind == "flag":
            cfg[ckey] = "true"
        else:
            cfg[ckey] = v
    fs.add_token("/cfg/t.ini", ("INI", {"config": cfg}))
    w = World(fs, mutants=_mutants)
    ns2 = dict(base)
    ns2.update(config=True, config_path="/cfg/t.ini", progress="0")
    if "meta-version" not in opts:
        ns2["meta_version"] = mv
    m = run_create(E, w, types.SimpleNamespace(**ns2), "C20.subset.config")
    if m is None:
        return
    metas["config"] = m
    k = strip(metas["keyword"])
    for route in ("flag", "config"):
        E.check(ben_equal(strip(metas[route]), k, ordered=False), "C20.subset.%s-equals-keyword" % route,
                "options %r: %s route gives %s, keyword route gives %s" % (opts, route, _brief(metas[route]), _brief(metas["keyword"])))
    for k_ in WITNESSES:
        E.witnesses.setdefault(k_, True)


def job_config_twice(E, mv, twice=True, _mutants=None):
    """Two creates by one process through the same configuration file path, the file rewritten in between: the second
    metafile carries the second file's options (what the equivalent keywords give)."""
    fs, s = mkfs(E)
    first = {"comment": OStr("first.comment", nonempty=True), "source": OStr("first.source", nonempty=True), "private": "true",
             "piece-length": "16"}
    second = {"comment": OStr("second.comment", nonempty=True), "piece-length": "15"}
    fs.add_token("/cfg/t.ini", ("INI", {"config": first}))
    w = World(fs, mutants=_mutants)
    argv = ["create", "--prog", "0", "--meta-version", mv, "--config", "--config-path", "/cfg/t.ini"]
    try:
        w.mod("cli").execute(argv + ["-o", "/out/one.torrent", "/data/name"])
        fs.add_token("/cfg/t.ini", ("INI", {"config": second}))
        got = w.mod("cli").execute(argv + ["-o", "/out/two.torrent", "/data/name"]).meta
        T = World(fs.clone(), mutants=_mutants).mod("torrent")
        kw = dict(path="/data/name", outfile="/out/k.torrent", meta_version=mv, progress=0, comment=second["comment"], piece_length="15")
        want = (T.TorrentFile(**kw) if mv == "1" else T.TorrentAssembler(**kw)).meta
    except Unsupported:
        raise
    except SystemExit as ex:
        E.fail("C20.config-twice.parser-accepts", str(ex))
        return
    except Exception as ex:  # noqa: BLE001
        E.fail("C20.config-twice.no-exception", "%s: %s" % (type(ex).__name__, ex))
        return
    E.check(ben_equal(strip(got), strip(want), ordered=False), "C20.config-twice.second-equals-keyword",
            "second create through the rewritten configuration file gives %s, the keywords give %s" % (_brief(got), _brief(want)))
    for k_ in WITNESSES:
        E.witnesses.setdefault(k_, True)


def _swallow_vals(nvals):
    """Legal addresses in non-canonical spellings (upper-case scheme, empty query / fragment, odd schemes): every route
    must store them verbatim."""
    pool = {"announce": ["HTTP://Tracker.Example/Announce.PHP?", "udp://t.example:6969/announce#"],
            "web-seed": ["FTP://mirror.example/pub/", "http://w.example/seed.php?x=%2F&y=a+b#"],
            "http-seed": ["HTTPS://H.example:443/seed.php#", "http://h.example/%7Euser/?"]}
    return {k: v[:nvals] for k, v in pool.items()}


def job_default_config(E, mv, default_cfg=True, _mutants=None):
    """--config without --config-path while two of the documented default locations hold a file: the one in the
    working directory is the configuration (documented search order), so the metafile equals the keyword route with
    that file's values."""
    fs, s = mkfs(E)
    here = {"comment": OStr("cwd.comment", nonempty=True), "private": "true", "piece-length": "15"}
    home = {"comment": OStr("home.comment", nonempty=True), "source": OStr("home.source", nonempty=True), "piece-length": "16"}
    fs.add_token("/work/torrentfile.ini", ("INI", {"config": here}))
    fs.add_token(fs.home + "/.torrentfile/torrentfile.ini", ("INI", {"config": home}))
    fs.add_token(fs.home + "/.config/.torrentfile/torrentfile.ini", ("INI", {"config": {"comment": OStr("home2.comment", nonempty=True)}}))
    w = World(fs, mutants=_mutants)
    try:
        got = w.mod("cli").execute(["create", "--prog", "0", "--meta-version", mv, "--config", "-o", "/out/x.torrent", "/data/name"]).meta
        T = World(fs.clone(), mutants=_mutants).mod("torrent")
        kw = dict(path="/data/name", outfile="/out/k.torrent", meta_version=mv, progress=0, comment=here["comment"], private=True, piece_length="15")
        want = (T.TorrentFile(**kw) if mv == "1" else T.TorrentAssembler(**kw)).meta
    except Unsupported:
        raise
    except SystemExit as ex:
        E.fail("C20.default-config.parser-accepts", str(ex))
        return
    except Exception as ex:  # noqa: BLE001
        E.fail("C20.default-config.no-exception", "%s: %s" % (type(ex).__name__, ex))
        return
    E.check(ben_equal(strip(got), strip(want), ordered=False), "C20.default-config.cwd-file-wins",
            "--config with ./torrentfile.ini and ~/.torrentfile/torrentfile.ini present gives %s, the working directory's file means %s" % (_brief(got), _brief(want)))
    for k_ in WITNESSES:
        E.witnesses.setdefault(k_, True)


def job_swallow(E, order, nvals, _mutants=None):
    """List-valued flags placed before the positional content path swallow it; the
    metafile must equal the one from the keyword route."""
    fs, s = mkfs(E)
    w = World(fs, mutants=_mutants)
    vals = _swallow_vals(nvals)
    argv = ["create", "-o", "/out/x.torrent", "--prog", "0"]
    for o in order:
        argv += [OPTIONS[o][0]] + vals[o]
    argv += ["/data/name"]
    try:
        res = w.mod("cli").execute(list(argv))
    except Unsupported:
        raise
    except SystemExit as ex:
        E.fail("C20.swallow.parser-accepts", "%r: %s" % (argv, ex))
        return
    except Exception as ex:  # noqa: BLE001
        E.fail("C20.swallow.no-exception", "%r: %s: %s" % (argv, type(ex).__name__, ex))
        return
    fs2, _ = mkfs(E)
    w2 = World(fs2, mutants=_mutants)
    t = w2.mod("torrent").TorrentFile(path="/data/name", outfile="/out/x.torrent", progress=0, announce=vals["announce"],
                                      url_list=vals["web-seed"], httpseeds=vals["http-seed"])
    o, m = t.write()
    E.check(ben_equal(strip(res.meta), strip(m), ordered=False), "C20.swallow.equals-keyword",
            "argv %r gives %s, keyword route gives %s" % (argv, _brief(res.meta), _brief(m)))
    E.witnesses["positional swallowed by a list flag"] = True
    for k_ in WITNESSES:
        E.witnesses.setdefault(k_, True)


# ------------------------------------------------------------------ concrete replay

def _replay_subset(params, model, workdir, data, out, T, run_cli, norm):
    import io
    import contextlib
    opts, mv = params["opts"], params["mv"]
    conc = {}
    for o in opts:
        kind = OPTIONS[o][3]
        if kind == "list":
            conc[o] = ["http://%s/0" % o, "http://%s/1" % o]
        elif kind == "str":
            conc[o] = "true" if int(model.get("%s.v.is[lower:true]" % o, 0)) else ("2024" if int(model.get("%s.v.isdigit" % o, 0)) else "some %s value" % o)
        elif kind == "flag":
            conc[o] = True
        else:
            conc[o] = kind.split(":", 1)[1]
    if "out" in conc:
        conc["out"] = os.path.join(out, "other.torrent")
    kwargs = dict(path=data, outfile=conc.get("out", os.path.join(out, "k.torrent")), meta_version=mv, progress=0)
    for o in opts:
        kwargs[OPTIONS[o][2]] = conc[o]
    bad = []
    try:
        with contextlib.redirect_stdout(io.StringIO()):
            t = T.TorrentFile(**kwargs) if kwargs.get("meta_version") == "1" else T.TorrentAssembler(**kwargs)
            t.write()
    except BaseException as ex:  # noqa: BLE001
        return ["C20.subset.keyword.no-exception: %r" % (ex,)]
    km = norm(t.meta)
    argv = ["create", "--prog", "0"]
    if "out" not in opts:
        argv += ["-o", os.path.join(out, "f.torrent")]
    if "meta-version" not in opts:
        argv += ["--meta-version", mv]
    argv += [data]
    for o in opts:
        v = conc[o]
        argv += [OPTIONS[o][0]] + (v if isinstance(v, list) else ([] if v is True else [v]))
    try:
        if norm(run_cli(argv).meta) != km:
            bad.append("C20.subset.flag-equals-keyword")
    except BaseException as ex:  # noqa: BLE001
        bad.append("C20.subset.flag.no-exception: %r" % (ex,))
    ini = os.path.join(workdir, "t.ini")
    with open(ini, "w") as f:
        f.write("[config]\n")
        for o in opts:
            v = conc[o]
            f.write("%s = %s\n" % (OPTIONS[o][1], ("\n    " + "\n    ".join(v)) if isinstance(v, list) else ("true" if v is True else v)))
    argv = ["create", "--prog", "0", "--config", "--config-path", ini]
    if "out" not in opts:
        argv += ["-o", os.path.join(out, "c.torrent")]
    if "meta-version" not in opts:
        argv += ["--meta-version", mv]
    argv += [data]
    try:
        if norm(run_cli(argv).meta) != km:
            bad.append("C20.subset.config-equals-keyword")
    except BaseException as ex:  # noqa: BLE001
        bad.append("C20.subset.config.no-exception: %r" % (ex,))
    return bad


def replay(params, model, notes, workdir, seed):
    import io
    import contextlib
    import sys
    import pyben
    mods = cr.real_torrentfile()
    import torrentfile.cli  # noqa: F401
    cli = sys.modules["torrentfile.cli"]
    T = mods["torrentfile.torrent"]
    size = int(model.get("s0", 5))
    data = os.path.join(workdir, "data", "name")
    refconc.write_file(data, refconc.content(("f", 0), size, seed))
    out = os.path.join(workdir, "out")
    os.makedirs(out)

    def norm(m):
        m = {k: v for k, v in m.items() if k != "creation date"}
        return cr.norm_real(m)

    def run_cli(argv):
        with contextlib.redirect_stdout(io.StringIO()), contextlib.redirect_stderr(io.StringIO()):
            return cli.execute(list(argv))
    old = os.getcwd()
    os.chdir(workdir)
    try:
        if "opt" not in params and "order" not in params and not params.get("twice") and not params.get("default_cfg") and "opts" not in params:
            mv = params["mv"]
            root = os.path.join(workdir, "payload", "name")
            ms = {}
            for route in ("keyword", "flag", "config"):
                import shutil as _sh
                _sh.rmtree(os.path.join(workdir, "payload"), ignore_errors=True)
                refconc.write_file(os.path.join(root, "a"), refconc.content(("f", 0), int(model.get("s0", 1)), seed))
                refconc.write_file(os.path.join(root, "b"), refconc.content(("f", 1), int(model.get("s1", 0)), seed))
                outp = os.path.join(root, "name.torrent")
                try:
                    if route == "keyword":
                        kw = dict(path=root, outfile=outp, meta_version=mv, progress=0, piece_length=14)
                        with contextlib.redirect_stdout(io.StringIO()):
                            t = T.TorrentFile(**kw) if mv == "1" else T.TorrentAssembler(**kw)
                            t.write()
                        ms[route] = norm(t.meta)
                    elif route == "flag":
                        ms[route] = norm(run_cli(["create", "--prog", "0", "--meta-version", mv, "--piece-length", "14", "-o", outp, root]).meta)
                    else:
                        ini = os.path.join(workdir, "o.ini")
                        with open(ini, "w") as f:
                            f.write("[config]\nout = %s\n" % outp)
                        ms[route] = norm(run_cli(["create", "--prog", "0", "--meta-version", mv, "--piece-length", "14", "--config", "--config-path", ini, root]).meta)
                except BaseException as ex:  # noqa: BLE001
                    return ["C20.out-inside.no-exception: %r" % (ex,)]
            return [("C20.out-inside.%s-equals-keyword" % r) for r in ("flag", "config") if ms[r] != ms["keyword"]]
        if params.get("default_cfg"):
            mv = params["mv"]
            home = os.environ["HOME"]
            os.makedirs(os.path.join(home, ".torrentfile"), exist_ok=True)
            os.makedirs(os.path.join(home, ".config", ".torrentfile"), exist_ok=True)
            with open(os.path.join(workdir, "torrentfile.ini"), "w") as f:
                f.write("[config]\ncomment = cwd comment\nprivate = true\npiece-length = 15\n")
            with open(os.path.join(home, ".torrentfile", "torrentfile.ini"), "w") as f:
                f.write("[config]\ncomment = home comment\nsource = home source\npiece-length = 16\n")
            with open(os.path.join(home, ".config", ".torrentfile", "torrentfile.ini"), "w") as f:
                f.write("[config]\ncomment = home2 comment\n")
            try:
                got = run_cli(["create", "--prog", "0", "--meta-version", mv, "--config", "-o", os.path.join(out, "x.torrent"), data]).meta
                kw = dict(path=data, outfile=os.path.join(out, "k.torrent"), meta_version=mv, progress=0, comment="cwd comment", private=True, piece_length="15")
                with contextlib.redirect_stdout(io.StringIO()):
                    want = (T.TorrentFile(**kw) if mv == "1" else T.TorrentAssembler(**kw)).meta
            except BaseException as ex:  # noqa: BLE001
                return ["C20.default-config.no-exception: %r" % (ex,)]
            return [] if norm(got) == norm(want) else ["C20.default-config.cwd-file-wins"]
        if "opts" in params:
            return _replay_subset(params, model, workdir, data, out, T, run_cli, norm)
        if params.get("twice"):
            mv = params["mv"]
            ini = os.path.join(workdir, "t.ini")
            argv = ["create", "--prog", "0", "--meta-version", mv, "--config", "--config-path", ini]
            try:
                with open(ini, "w") as f:
                    f.write("[config]\ncomment = first comment\nsource = first source\nprivate = true\npiece-length = 16\n")
                run_cli(argv + ["-o", os.path.join(out, "one.torrent"), data])
                with open(ini, "w") as f:
                    f.write("[config]\ncomment = second comment\npiece-length = 15\n")
                got = run_cli(argv + ["-o", os.path.join(out, "two.torrent"), data]).meta
                kw = dict(path=data, outfile=os.path.join(out, "k.torrent"), meta_version=mv, progress=0, comment="second comment", piece_length="15")
                with contextlib.redirect_stdout(io.StringIO()):
                    want = (T.TorrentFile(**kw) if mv == "1" else T.TorrentAssembler(**kw)).meta
            except BaseException as ex:  # noqa: BLE001
                return ["C20.config-twice.no-exception: %r" % (ex,)]
            return [] if norm(got) == norm(want) else ["C20.config-twice.second-equals-keyword"]
        if "order" in params:
            nvals = params["nvals"]
            vals = _swallow_vals(nvals)
            argv = ["create", "-o", os.path.join(out, "x.torrent"), "--prog", "0"]
            for o in params["order"]:
                argv += [OPTIONS[o][0]] + vals[o]
            argv += [data]
            try:
                res = run_cli(argv)
            except BaseException as ex:  # noqa: BLE001
                return ["C20.swallow.no-exception: %r" % (ex,)]
            with contextlib.redirect_stdout(io.StringIO()):
                t = T.TorrentFile(path=data, outfile=os.path.join(out, "k.torrent"), progress=0, announce=vals["announce"],
                                  url_list=vals["web-seed"], httpseeds=vals["http-seed"])
                t.write()
            return [] if norm(res.meta) == norm(t.meta) else ["C20.swallow.equals-keyword"]
        opt, mv = params["opt"], params["mv"]
        flag, ckey, kw, kind = OPTIONS[opt]
        inline = any(k.endswith(".has-inline-comment") and int(v) == 1 for k, v in model.items())
        comma = any(k.endswith(".has[,]") and int(v) == 1 for k, v in model.items())
        if kind == "list":
            n = 1 + int(model.get("nvals", 0))
            value = ["http://v/%d" % i + ("?auth=ab,cd" if comma else "") + (" ; mirror #%d" % i if inline else "") for i in range(n)]
        elif kind == "str":
            value = "true" if int(model.get("v0.is[lower:true]", 0)) else ("false" if int(model.get("v0.is[lower:false]", 0)) else "some value")
            if inline:
                value = "Disc 1 ; remastered #2"
            if int(model.get("v0.isdigit", 0)):
                value = "2024"
        elif kind == "flag":
            value = True
        else:
            value = kind.split(":", 1)[1]
            if opt == "out":
                value = os.path.join(out, "other.torrent")
            elif opt == "out-dir":
                value = out + "/"
            elif opt == "out-relative":
                os.makedirs(os.path.join(workdir, "sub"), exist_ok=True)
        isout = opt in ("out", "out-dir", "out-relative")
        want_out = {"out": ("out", "other.torrent"), "out-dir": ("out", "name.torrent"), "out-relative": ("sub", "rel.torrent")}.get(opt)
        kwargs = dict(path=data, outfile=os.path.join(out, "k.torrent"), meta_version=mv, progress=0)
        kwargs[kw] = value
        bad = []
        with contextlib.redirect_stdout(io.StringIO()):
            t = T.TorrentFile(**kwargs) if kwargs.get("meta_version") == "1" else T.TorrentAssembler(**kwargs)
            t.write()
        km = norm(t.meta)
        argv = ["create", "--prog", "0"]
        if not isout:
            argv += ["-o", os.path.join(out, "f.torrent")]
        if opt != "meta-version":
            argv += ["--meta-version", mv]
        argv += [data, flag] + (value if isinstance(value, list) else ([] if kind == "flag" else [value]))
        try:
            res = run_cli(argv)
            if norm(res.meta) != km:
                bad.append("C20.flag-equals-keyword")
            if isout and not os.path.isfile(os.path.join(workdir, *want_out)):
                bad.append("C20.field.out.flag")
        except BaseException as ex:  # noqa: BLE001
            bad.append("C20.flag.no-exception: %r" % (ex,))
        ini = os.path.join(workdir, "t.ini")
        if kind == "list":
            rendered = "\n    " + "\n    ".join(value)
        elif kind == "flag":
            rendered = "true"
        else:
            rendered = value
        with open(ini, "w") as f:
            f.write("[config]\n%s = %s\n" % (ckey, rendered))
        argv = ["create", "--prog", "0", "--config", "--config-path", ini]
        if not isout:
            argv += ["-o", os.path.join(out, "c.torrent")]
        if opt != "meta-version":
            argv += ["--meta-version", mv]
        argv += [data]
        try:
            for f_ in os.listdir(out):
                os.remove(os.path.join(out, f_))
            if isout and os.path.exists(os.path.join(workdir, *want_out)):
                os.remove(os.path.join(workdir, *want_out))
            res = run_cli(argv)
            if norm(res.meta) != km:
                bad.append("C20.config-equals-keyword")
            if isout and not os.path.isfile(os.path.join(workdir, *want_out)):
                bad.append("C20.field.out.config")
        except BaseException as ex:  # noqa: BLE001
            bad.append("C20.config.no-exception: %r" % (ex,))
        return bad
    finally:
        os.chdir(old)


def canaries(tier):
    return [
        ("config: web-seed stored under a name nobody reads", {"commands": [("        \"web-seed\": \"url_list\",", "        \"web-seed\": \"url-list\",")]},
         ["route.web-seed.*"]),
        ("MetaFile: content path swallowed by --web-seed not recovered", {"torrent": [(
            "            elif url_list and os.path.exists(url_list[-1]):\n                path = url_list[-1]\n                url_list = url_list[:-1]\n", "")]},
         ["swallow.*"]),
        ("cli: --http-seed stored under another attribute", {"cli": [(
            "        \"--http-seed\",\n        action=\"store\",\n        dest=\"httpseeds\",\n        metavar=\"<url>\",\n        nargs=\"+\",\n        help=\"list of URLs",
            "        \"--http-seed\",\n        action=\"store\",\n        dest=\"http_seeds\",\n        metavar=\"<url>\",\n        nargs=\"+\",\n        help=\"list of URLs")]},
         ["route.http-seed.*"]),
        ("config: values spelled true/false become booleans for every key", {"commands": [(
            "        elif name in [\"private\", \"align\", \"magnet\", \"cwd\"]:", "        elif val.lower() in [\"true\", \"false\"]:")]},
         ["route.comment.*", "route.source.*"]),
    ]


if __name__ == "__main__":
    from harness import common
    raise SystemExit(common.main("harness.c20"))
