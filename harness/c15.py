"""C15: piece-aligned v1 metafiles: padding entries account exactly for the pieces."""
import os

from symx.core import tb, disj
from symx.loader import World

from harness import creators as cr
from harness import oracles as orc
from harness.creators import SHAPES, BLOCK
import refconc

PROPERTY = "C15"
MODULES = ["torrent", "hasher", "utils", "mixins", "cli", "commands"]
ASSUMPTIONS = [
    "A-hash model (injective sha1); pass verdicts need no assumption on contents",
    "piece length is a configuration ({16,32,64} KiB) because `size % P` must stay linear; sizes and listing order "
    "are solver variables",
    "a padding entry after the last file and a missing entry where the gap is 0 are both accepted (the statement "
    "requires neither)",
]
WITNESSES = ["file shorter than a piece", "file longer than a piece with remainder", "exact multiple", "empty file"]


def BOUNDS(tier):
    return {"creator": "TorrentFile(align=True)", "single file": "size in [0, 3P]",
            "trees": "<= 3 files, sizes in [0, 2P] (thorough: 3P and a 4-file shape)",
            "piece_length": "{16,32,64} KiB", "outside": "other piece lengths, more files, larger sizes"}


def jobs(tier):
    q = tier == "quick"
    out = []
    for P in (16384, 32768, 65536):
        out.append(("single.P%d" % P, "job", dict(shape="single", P=P, K=3, order="reversed")))
    out.append(("dir1.P16384", "job", dict(shape="dir1", P=16384, K=3, order="reversed")))
    out.append(("dir1.P65536", "job", dict(shape="dir1", P=65536, K=2, order="reversed")))
    out.append(("flat2.P16384", "job", dict(shape="flat2", P=16384, K=3, order="symbolic")))
    out.append(("flat2.P65536", "job", dict(shape="flat2", P=65536, K=2, order="reversed")))
    out.append(("nested3.P16384", "job", dict(shape="nested3", P=16384, K=2, order="reversed")))
    out.append(("order2.P32768", "job", dict(shape="order2", P=32768, K=2, order="reversed")))
    for shp in cr.scheme_shapes(["flat2", "nested3"], tier):
        out.append(("%s.P16384" % shp, "job", dict(shape=shp, P=16384, K=1 if shp.startswith("nested3") else 2, order="reversed")))
    # how the request arrives: `content` keyword (what the command line passes), the command line itself, progress modes
    for shape in ("single", "flat2"):
        for route, prog in (("content", 0), ("cli", 1), ("content", 2), ("cli", 0), ("path", 1), ("path", 2), ("url-fallback", 0)):
            if q and shape == "flat2" and (route, prog) in (("content", 2), ("path", 1)):
                continue
            out.append(("%s.P16384.via-%s.prog%d" % (shape, route, prog), "job", dict(shape=shape, P=16384, K=2, order="reversed", route=route, progress=prog)))
    from harness import matrix
    for i, row in matrix.rows(tier):
        out.append(("matrix." + matrix.label(i, row), "job_matrix", dict(row=row)))
    out.append(("rewritten-same-size-same-mtime.flat2", "job_rewritten", dict(P=16384, keep_mtime=True)))
    out.append(("rewritten-same-size.flat2", "job_rewritten", dict(P=16384, keep_mtime=False)))
    out.append(("seq.flat2.P16384-then-P65536", "job_seq", dict(P1=16384, P2=65536)))
    out.append(("seq.flat2.P32768-then-P16384", "job_seq", dict(P1=32768, P2=16384)))
    if not q:
        out.append(("nested3.P32768.K3", "job", dict(shape="nested3", P=32768, K=3, order="reversed")))
        out.append(("nested4.P16384", "job", dict(shape="nested4", P=16384, K=2, order="reversed")))
        out.append(("flat3.P16384.sym", "job", dict(shape="flat3", P=16384, K=2, order="symbolic")))
    return out


def _request(w, route, P, progress, root="/data/name", out="/out/x.torrent"):
    """The same aligned v1 request by different routes; returns the info dictionary."""
    if route == "path":
        return cr.create(w, "1", path=root, piece_length=P, progress=progress, align=True).meta["info"]
    if route == "content":
        return cr.create(w, "1", content=root, piece_length=P, progress=progress, align=True).meta["info"]
    if route == "url-fallback":
        # the documented fallback: the content path swallowed by a list-valued option arrives as its last element
        return cr.create(w, "1", announce=["http://t/a", root], piece_length=P, progress=progress, align=True).meta["info"]
    argv = ["create", "--align", "--prog", str(progress), "--meta-version", "1", "--piece-length", str(P), "-o", out, root]
    return w.mod("cli").execute(argv).meta["info"]


def job(E, shape, P, K, order, route="path", progress=0, _mutants=None):
    fs, sizes = cr.make_fs(E, shape, K, P, order=order)
    fs.mkdirs("/out")
    E.assume(disj(*[s > 0 for s in sizes.values()]))
    w = World(fs, mutants=_mutants)
    try:
        info = _request(w, route, P, progress)
        t = __import__("types").SimpleNamespace(meta={"info": info})
    except SystemExit as ex:
        E.fail("C15.parser-accepts", str(ex))
        return
    except Exception as ex:  # noqa: BLE001
        E.fail("C15.no-exception", "%s: %s" % (type(ex).__name__, ex))
        return
    orc.oracle_aligned_v1(E, t.meta["info"], sizes, P, shape, "C15")
    for s in sizes.values():
        E.witness("file shorter than a piece", tb(s > 0) and s < P)
        E.witness("file longer than a piece with remainder", s == P + 5)
        E.witness("exact multiple", s == 2 * P)
        if shape != "single":
            E.witness("empty file", s == 0)
        else:
            E.witnesses.setdefault("empty file", True)


def job_matrix(E, row, _mutants=None):
    from harness import matrix
    matrix.run(E, "1", row, lambda e, meta, sizes, Pn, shape: orc.oracle_aligned_v1(e, meta["info"], sizes, Pn, shape, "C15.matrix"),
               "C15.matrix", align=True, _mutants=_mutants)


def job_rewritten(E, P, keep_mtime, _mutants=None):
    """Aligned creation, a payload file replaced by other bytes of the same length (timestamps preserved, as cp -p or
    rsync -t leave them), aligned creation again in the same process: the second metafile describes the new bytes."""
    from harness import matrix
    from symx.abuf import ABuf
    shape = "flat2"
    fs, sizes = cr.make_fs(E, shape, 2, P, order="reversed")
    E.assume(disj(*[s > 0 for s in sizes.values()]))
    E.assume(sizes["name/a"] > 0)
    w = World(fs, mutants=_mutants)
    try:
        cr.create(w, "1", path="/data/name", piece_length=P, progress=0, align=True)
        stamps = (dict(fs.mtime), fs.clock)
        fs.add("/data/name/a", ("f", "rewritten"), sizes["name/a"])
        if keep_mtime:
            fs.mtime, fs.clock = dict(stamps[0]), stamps[1]
        t = cr.create(w, "1", path="/data/name", piece_length=P, progress=0, align=True)
    except Exception as ex:  # noqa: BLE001
        E.fail("C15.no-exception", "%s: %s" % (type(ex).__name__, ex))
        return
    contents = {"name/a": ABuf.file(("f", "rewritten"), sizes["name/a"]), "name/b": ABuf.file(("f", 1), sizes["name/b"])}
    with matrix.content_override(shape, contents):
        orc.oracle_aligned_v1(E, t.meta["info"], sizes, P, shape, "C15.rewritten")


def job_seq(E, P1, P2, _mutants=None):
    """Two aligned creations by one process with different piece lengths: the
    second must still satisfy the property (no buffer or table may be carried over)."""
    shape = "flat2"
    fs, sizes = cr.make_fs(E, shape, 2, P2, order="reversed")
    E.assume(disj(*[s > 0 for s in sizes.values()]))
    w = World(fs, mutants=_mutants)
    try:
        cr.create(w, "1", path="/data/name", piece_length=P1, progress=0, align=True)
        t = cr.create(w, "1", path="/data/name", piece_length=P2, progress=0, align=True)
    except Exception as ex:  # noqa: BLE001
        E.fail("C15.no-exception", "%s: %s" % (type(ex).__name__, ex))
        return
    orc.oracle_aligned_v1(E, t.meta["info"], sizes, P2, shape, "C15.seq")


def conc_aligned(info, data, P, shape):
    bad = []
    if shape == "single":
        return cr.conc_v1(info, None, data, P, ["name"])
    files = info.get("files") or []
    prefix = 0
    prev_payload = False
    for f in files:
        if "attr" in f:
            if f["attr"] != "p":
                bad.append("pad.attr")
            if not prev_payload:
                bad.append("pad.follows-payload")
            if f["length"] != (-prefix) % P:
                bad.append("pad.length")
            prev_payload = False
        else:
            if prefix % P:
                bad.append("alignment")
            prev_payload = True
        prefix += f["length"]
    bad += cr.conc_v1(info, None, data, P, sorted(SHAPES[shape]), aligned=True)
    n = len(bytes(info.get("pieces", b""))) // 20
    if not (n * P >= prefix > (n - 1) * P):
        bad.append("piece-count")
    return sorted(set(bad))


def _replay_rewritten(params, model, workdir, seed):
    import io
    import contextlib
    shape, P = "flat2", params["P"]
    sizes = cr.concrete_sizes(shape, model)
    root, data = cr.materialize(workdir, shape, sizes, seed)
    mods = cr.real_torrentfile()
    T = mods["torrentfile.torrent"]
    pa = os.path.join(root, "a")
    try:
        with contextlib.redirect_stdout(io.StringIO()):
            T.TorrentFile(path=root, piece_length=P, align=True, progress=0)
            st = os.stat(pa)
            dst = os.stat(root)
            new = refconc.content(("f", "rewritten"), sizes["name/a"], seed)
            with open(pa, "wb") as f:
                f.write(new)
            if params["keep_mtime"]:
                os.utime(pa, ns=(st.st_atime_ns, st.st_mtime_ns))
                os.utime(root, ns=(dst.st_atime_ns, dst.st_mtime_ns))
            t = T.TorrentFile(path=root, piece_length=P, align=True, progress=0)
    except Exception as ex:  # noqa: BLE001
        return ["C15.no-exception: %s" % ex]
    data = dict(data)
    data["name/a"] = new
    return ["C15.rewritten." + b for b in conc_aligned(t.meta["info"], data, P, shape)]


def replay(params, model, notes, workdir, seed):
    if "keep_mtime" in params:
        return _replay_rewritten(params, model, workdir, seed)
    if "row" in params:
        from harness import matrix
        row = params["row"]
        meta, data, Pn = matrix.replay("1", row, model, workdir, seed, align=True)
        if isinstance(meta, BaseException):
            return ["C15.matrix.no-exception: %s: %s" % (type(meta).__name__, meta)]
        return ["C15.matrix." + b for b in conc_aligned(meta["info"], data, Pn, row["tree"])]
    if "P1" in params:
        shape = "flat2"
        sizes = cr.concrete_sizes(shape, model)
        root, data = cr.materialize(workdir, shape, sizes, seed)
        try:
            cr.real_create("1", path=root, piece_length=params["P1"], align=True)
            mods = __import__("sys").modules
            import io
            import contextlib
            with contextlib.redirect_stdout(io.StringIO()):
                t = mods["torrentfile.torrent"].TorrentFile(path=root, piece_length=params["P2"], align=True, progress=0)
        except Exception as ex:  # noqa: BLE001
            return ["C15.no-exception: %s" % ex]
        return ["C15.seq." + b for b in conc_aligned(t.meta["info"], data, params["P2"], shape)]
    shape, P = params["shape"], params["P"]
    sizes = cr.concrete_sizes(shape, model)
    root, data = cr.materialize(workdir, shape, sizes, seed)
    route, prog = params.get("route", "path"), params.get("progress", 0)
    import io
    import contextlib
    try:
        if route == "cli":
            mods = cr.real_torrentfile()
            os.makedirs(os.path.join(workdir, "out"), exist_ok=True)
            with contextlib.redirect_stdout(io.StringIO()), contextlib.redirect_stderr(io.StringIO()):
                info = mods["torrentfile.cli"].execute(["create", "--align", "--prog", str(prog), "--meta-version", "1", "--piece-length", str(P),
                                                        "-o", os.path.join(workdir, "out", "x.torrent"), root]).meta["info"]
        else:
            kw = {"path": dict(path=root), "content": dict(content=root), "url-fallback": dict(announce=["http://t/a", root])}[route]
            with contextlib.redirect_stdout(io.StringIO()), contextlib.redirect_stderr(io.StringIO()):
                info = cr.real_create("1", piece_length=P, align=True, progress=prog, **kw).meta["info"]
    except BaseException as ex:  # noqa: BLE001
        return ["C15.no-exception: %s: %s" % (type(ex).__name__, ex)]
    return ["C15." + b for b in conc_aligned(info, data, P, shape)]


def validate(tier, workdir, seed):
    import random
    rnd = random.Random(seed + 1515)
    runs, errs = 0, []
    for shape, P in (("single", 16384), ("flat2", 32768), ("nested3", 16384)):
        n = len(SHAPES[shape])
        ss = [rnd.choice([0, 1, P - 1, P, P + 1, 2 * P, 2 * P + 9]) for _ in range(n)]
        if not any(ss):
            ss[0] = 3
        pin = cr.Pinned({"s%d" % i: v for i, v in enumerate(ss)})
        fs, sizes = cr.make_fs(pin, shape, 4, P)
        t = cr.create(World(fs), "1", path="/data/name", piece_length=P, progress=0, align=True)
        files = {("f", i): refconc.content(("f", i), v, seed) for i, v in enumerate(ss)}
        model_meta = cr.canon_meta(t.meta["info"], files)
        d = os.path.join(workdir, "val%d" % runs)
        root, data = cr.materialize(d, shape, {r: ss[i] for i, r in enumerate(SHAPES[shape])}, seed)
        real = cr.norm_real(cr.real_create("1", path=root, piece_length=P, align=True).meta["info"])
        runs += 1
        if model_meta != real:
            errs.append("model != real for %s P=%d sizes=%r" % (shape, P, ss))
    return runs, errs


if __name__ == "__main__":
    from harness import common
    raise SystemExit(common.main("harness.c15"))
