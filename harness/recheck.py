"""Shared recheck world for C04 / C05 / C16 (and C18's read-only part)."""
import os

from symx.core import tb, conj, disj, Rat, SymInt
from symx.abuf import ABuf
from symx.afs import AFS
from symx.loader import World, BenTok
from symx import refs

from harness import creators as cr
from harness.creators import SHAPES, BLOCK
import refconc

MODULES = ["recheck", "hasher", "utils", "mixins"]
KINDS = ("intact", "trunc", "missing", "flip")


def expected_content(shape, rel, sizes):
    return ABuf.file(cr.fid_of(shape, rel), sizes[rel])


TNAMES = [None, "100% done", "My%20Album", "%s", "{name}", "a[1]*", "name.torrent", " lead and trail ", "é 中", "..hidden"]
# which file is damaged how ("-" = nothing damaged)
DAMAGE = ["-", "last:flip", "first:trunc", "first:missing", "last:missing", "last:trunc", "first:flip"]
MDIMS = {
    "version": [1, 2, 3],
    "shape": ["single", "flat2", "nested3", "selfname", "selfdir", "order2", "ungrouped3", "samedir2", "nested4", "samename2"] +
             sorted(k for k in SHAPES if "~" in k and k.split("~")[0] in ("flat2", "nested3")),
    "cpath": ["root", "parent"],
    "tname": TNAMES,
    "source": ["ref", "own", "own-class"],
    "P": [16384, 32768],
}


def matrix_rows(tier, prop, per_run=8):
    """Pairwise covering rows over the recheck configuration dimensions (see harness/matrix.py), as job_recheck
    parameter dictionaries.  C05 gets intact content, C04/C16 one damaged file per row."""
    import os as _os
    from harness import matrix
    dims = dict(MDIMS)
    dims["damage"] = ["-"] if prop == "C05" else (DAMAGE[1:] if prop == "C04" else DAMAGE)

    def ok(row):
        if row["tname"] is not None and row["source"] != "ref":
            return False
        if row["shape"] == "ungrouped3" and (row["version"] != 1 or row["source"] != "ref"):
            return False
        if row["shape"] == "single" and "missing" in row["damage"]:
            return False
        return True
    key = (prop,)
    if key not in _MROWS:
        _MROWS[key] = matrix.pairwise(dims, ok)
    rows = _MROWS[key]
    if tier != "thorough":
        seed = int(_os.environ.get("VERIF_SEED", "0") or 0)
        n = len(rows)
        idx = sorted({(seed * per_run * 7 + i * (n // per_run + 1)) % n for i in range(per_run)})
        rows = [rows[i] for i in idx]
    out = []
    for i, row in enumerate(rows):
        n = len(SHAPES[row["shape"]])
        dmg = ["intact"] * n
        if row["damage"] != "-":
            where, kind = row["damage"].split(":")
            dmg[0 if where == "first" else n - 1] = kind
        label = "matrix.v%d.%s.%s.%s.%s.P%d.%s" % (row["version"], row["shape"], row["cpath"], row["source"],
                                                  "t%d" % TNAMES.index(row["tname"]), row["P"], row["damage"].replace(":", "-"))
        params = dict(prop=prop, version=row["version"], shape=row["shape"], P=row["P"], K=1, dmg=dmg, source=row["source"], cpath=row["cpath"])
        if row["tname"] is not None:
            params["tname"] = row["tname"]
        out.append((label, "job_recheck", params))
    return out


_MROWS = {}


def v1_order(shape):
    if shape == "ungrouped3":
        return list(SHAPES[shape])      # as listed: legal, but not grouped by directory (other tools write such lists)
    return sorted(SHAPES[shape])


def ref_meta(E, version, shape, sizes, P, trailing_pad=False, v2_single_length=False, aligned=False):
    """Decoded metafile written from the specifications (independent of torrentfile)."""
    rels = SHAPES[shape]
    single = shape == "single"
    info = {"name": "name", "piece length": P}
    meta = {"announce": "http://t/a", "info": info}
    if version in (1, 3):
        if single:
            info["length"] = sizes[rels[0]]
            info["pieces"] = refs.v1_pieces(expected_content(shape, rels[0], sizes), P)
        else:
            order = v1_order(shape) if version == 1 else cr.tree_order(rels)
            files = []
            stream = ABuf.of([])
            for i, rel in enumerate(order):
                s = sizes[rel]
                files.append({"length": s, "path": rel.split("/")[1:]})
                stream.extend(expected_content(shape, rel, sizes))
                if (version == 3 or aligned) and (i + 1 < len(order) or trailing_pad) and tb(s % P != 0):
                    pad = P - s % P
                    files.append({"attr": "p", "length": pad, "path": [".pad", str(pad)]})
                    stream.extend(ABuf(pad))
            info["files"] = files
            info["pieces"] = refs.v1_pieces(stream, P)
    if version in (2, 3):
        info["meta version"] = 2
        tree = {}
        layers = {}
        for rel in cr.tree_order(rels):
            comps = ["name"] if single else rel.split("/")[1:]
            node = tree
            for c in comps[:-1]:
                node = node.setdefault(c, {})
            s = sizes[rel]
            leaf = {"length": s}
            if tb(s > 0):
                root, layer, _ = refs.v2_layerwise(expected_content(shape, rel, sizes), P)
                leaf["pieces root"] = root
                if tb(s > P):
                    layers[root] = layer
            node[comps[-1]] = {"": leaf}
        info["file tree"] = tree
        meta["piece layers"] = layers
        if single and (version == 3 or v2_single_length):
            info["length"] = sizes[rels[0]]
    return meta


def apply_damage(E, fs, shape, sizes, dmg, base="/data"):
    """Put the payload on the AFS with the given damage per file. Returns
    {rel: on-disk content zero-extended to the expected length} and whether any
    real damage was applied."""
    rels = SHAPES[shape]
    disk_ext = {}
    damaged = False
    for i, rel in enumerate(rels):
        s = sizes[rel]
        kind = dmg[i] if i < len(dmg) else "intact"
        exp = expected_content(shape, rel, sizes)
        fid = cr.fid_of(shape, rel)
        if kind == "intact":
            fs.add_content(base + "/" + rel, ABuf(exp))
            disk_ext[rel] = ABuf(exp)
        elif kind == "trunc":
            t = E.int("t%d" % i, 0, None)
            E.assume(t < s)
            fs.add_content(base + "/" + rel, ABuf.file(fid, t))
            disk_ext[rel] = ABuf.of([("F", fid, 0, t), ("Z", None, 0, s - t)])
            damaged = True
        elif kind == "missing":
            E.assume(s > 0)
            fs.mkdirs(os.path.dirname(base + "/" + rel))
            disk_ext[rel] = ABuf(s)
            damaged = True
        elif kind == "flip":
            o = E.int("o%d" % i, 0, None)
            E.assume(o < s)
            c = ABuf.of([("F", fid, 0, o), ("G", ("flip", i), 0, 1), ("F", fid, o + 1, s - o - 1)])
            fs.add_content(base + "/" + rel, c)
            disk_ext[rel] = ABuf(c)
            damaged = True
        else:
            raise ValueError(kind)
    E.note("damage", list(dmg))
    return disk_ext, damaged


def piece_table(version, shape, sizes, P, disk_ext, meta):
    """Reference verdict per piece: [(verifies: bool, payload bytes)].  A piece
    verifies iff the on-disk bytes (absent data read as zeros) equal the
    described bytes (A-generic: distinct descriptions = distinct bytes)."""
    rels = SHAPES[shape]
    table = []
    if version == 1:
        info = meta["info"]
        exp = ABuf.of([])
        dsk = ABuf.of([])
        if "files" in info:
            for f in info["files"]:
                if f.get("attr") == "p":
                    exp.extend(ABuf(f["length"]))       # padding: zeros by definition, never on disk
                    dsk.extend(ABuf(f["length"]))
                    continue
                rel = "/".join(["name"] + list(f["path"]))
                exp.extend(expected_content(shape, rel, sizes))
                dsk.extend(disk_ext[rel])
        else:
            exp.extend(expected_content(shape, rels[0], sizes))
            dsk.extend(disk_ext[rels[0]])
        pos = 0
        for sl in refs.cut(exp, P):
            n = sl.size()
            table.append((dsk[pos:pos + n] == sl, n))
            pos = pos + n
        return table
    for rel in cr.tree_order(rels):
        exp = expected_content(shape, rel, sizes)
        dsk = disk_ext[rel]
        pos = 0
        for sl in refs.cut(exp, P):
            n = sl.size()
            table.append((dsk[pos:pos + n] == sl, n))
            pos = pos + n
    return table


def _payload_in_verifying_pieces(meta, sizes, P, table):
    """Bytes of payload files (not of padding entries) that lie in verifying pieces of the v1 stream."""
    spans = []
    pos = 0
    for f in meta["info"]["files"]:
        n = f["length"]
        if f.get("attr") != "p":
            spans.append((pos, pos + n))
        pos = pos + n
    total = 0
    start = 0
    for ok, n in table:
        end = start + n
        if ok:
            for a, b in spans:
                lo = a if tb(a >= start) else start
                hi = b if tb(b <= end) else end
                if tb(hi > lo):
                    total = total + (hi - lo)
        start = end
    return total


def run_checker(E, w, meta_obj, content_path, tag):
    """Put the metafile on the AFS, run the real Checker, record its yields."""
    fs = w.fs
    fs.add_token("/t/m.torrent", BenTok(meta_obj))
    R = w.mod("recheck")
    yields = []
    try:
        c = R.Checker("/t/m.torrent", content_path)
        orig = c.iter_hashes

        def rec():
            for x in orig():
                yields.append(x)
                yield x
        c.iter_hashes = rec
        result = c.results()
    except Exception as ex:  # noqa: BLE001
        E.fail(tag + ".no-exception", "%s: %s" % (type(ex).__name__, ex))
        return None, yields
    return result, yields


def check_percentage(E, result, ref_matched, total, consumed, oblig):
    """`result` (exact rational from the model, or a concrete float) must equal ref_matched/total*100."""
    from fractions import Fraction
    if isinstance(result, Rat):
        if consumed is not None and tb(consumed == total):
            E.check(conj(result.d == total, result.n == 100 * ref_matched) if tb(result.d == total)
                    else result == Rat(100 * ref_matched, total),
                    oblig, "reported %r, reference %r/%r*100" % (result, ref_matched, total))
        else:
            E.check(result == Rat(100 * ref_matched, total), oblig,
                    "reported %r (consumed %r), reference %r/%r*100" % (result, consumed, ref_matched, total))
        return
    if isinstance(result, float) and isinstance(ref_matched, int) and isinstance(total, int):
        E.check(result == ref_matched / total * 100, oblig, "reported %r, reference %r/%r*100" % (result, ref_matched, total))
        return
    fr = Fraction(result)
    if isinstance(result, float) and fr.denominator != 1:
        # a rounded float against symbolic integers: bracket it by a relative error far above one ulp
        lo, hi = fr * (1 - Fraction(1, 2 ** 50)), fr * (1 + Fraction(1, 2 ** 50))
        E.check(conj(100 * ref_matched * lo.denominator >= lo.numerator * total,
                     100 * ref_matched * hi.denominator <= hi.numerator * total), oblig,
                "reported %r, reference %r/%r*100" % (result, ref_matched, total))
    else:
        E.check(100 * ref_matched * fr.denominator == fr.numerator * total, oblig,
                "reported %r, reference %r/%r*100" % (result, ref_matched, total))


def job_recheck(E, prop, version, shape, P, K, dmg, source="ref", cpath="root", trailing_pad=False,
                v2_single_length=True, tname=None, aligned=False, dup=False, pinned=None, _mutants=None, _equal_sizes=False):
    if dup:
        # every file of the tree has the same bytes (identical copies): one content identity, equal sizes
        saved = cr.fid_of
        cr.fid_of = lambda shape_, rel, names=None: ("f", 0)
        try:
            return job_recheck(E, prop, version, shape, P, K, dmg, source, cpath, trailing_pad, v2_single_length, tname, aligned,
                               dup=False, pinned=pinned, _mutants=_mutants, _equal_sizes=True)
        finally:
            cr.fid_of = saved
    rels = SHAPES[shape]
    fs = AFS(order="reversed")
    sizes = {}
    for i, r in enumerate(rels):
        if pinned and "s%d" % i in pinned:
            sizes[r] = E.int("s%d" % i, pinned["s%d" % i], pinned["s%d" % i])       # a fixed size (renders as ordinary text)
        else:
            sizes[r] = E.int("s%d" % i, 0, K * P)
    E.note("shape", shape)
    total = 0
    for s in sizes.values():
        total = total + s
    E.assume(total > 0)
    if _equal_sizes:
        for r in rels[1:]:
            E.assume(sizes[r] == sizes[rels[0]])
    w = World(fs, mutants=_mutants)
    if source == "ref":
        disk_ext, damaged = apply_damage(E, fs, shape, sizes, dmg)
        meta = ref_meta(E, version, shape, sizes, P, trailing_pad, v2_single_length, aligned)
    else:
        # metafile produced by torrentfile's own creator on the intact tree (same path), then damage
        fs0 = AFS(order="reversed")
        for i, r in enumerate(rels):
            fs0.add("/data/" + r, ("f", i), sizes[r])
        w0 = World(fs0, mutants=_mutants)
        which = {1: "1", 2: "2a", 3: "3a"}[version] if source == "own" else {1: "1", 2: "2c", 3: "3c"}[version]
        try:
            t = cr.create(w0, which, path="/data/name", piece_length=P, progress=0, **({"align": True} if aligned and version == 1 else {}))
        except Exception as ex:  # noqa: BLE001
            E.fail(prop + ".create.no-exception", "%s: %s" % (type(ex).__name__, ex))
            return
        meta = t.sort_meta()
        disk_ext, damaged = apply_damage(E, fs, shape, sizes, dmg)
    if tname:
        # the torrent (and its payload root) under another name
        fs.rename("/data/name", "/data/" + tname)
        del fs.log[:]
        meta["info"]["name"] = tname
        if shape == "single" and isinstance(meta["info"].get("file tree"), dict):
            # a single-file v2 tree has exactly one entry, keyed by the file's (= the torrent's) name
            meta["info"]["file tree"] = {tname: v for v in meta["info"]["file tree"].values()}
    result, yields = run_checker(E, w, meta, "/data/" + (tname or "name") if cpath == "root" else "/data", prop)
    if getattr(E, "capture", None) is not None:
        E.capture.append((result, [(bool(c == p), n) for c, p, _, n in yields]))
    if result is None:
        return
    matched = consumed = 0
    for chunk, piece, path, size in yields:
        consumed = consumed + size
        if chunk == piece:
            matched = matched + size
    E.check(not fs.log, prop + ".read-only", "recheck mutated the filesystem: %r" % (fs.log[:3],))
    if prop == "C05":
        # the statement is about the reported number only; internal byte accounting is not judged here
        from symx import core as _core
        _core.record_fp_shape(E, "eq100", result)
        E.check(result == 100, "C05.result==100", "intact content reported as %r (matched %r, consumed %r, payload %r)"
                % (result, matched, consumed, total))
    elif prop == "C04":
        from symx import core as _core
        if E.feasible(result < 100):
            _core.record_fp_shape(E, "lt100", result)
        E.check(result < 100, "C04.result<100", "damaged content (%r) reported as 100%%" % (list(dmg),))
    elif prop == "C16":
        table = piece_table(version, shape, sizes, P, disk_ext, meta)
        ref_matched = 0
        for ok, n in table:
            if ok:
                ref_matched = ref_matched + n
        # (1) the reported number equals the reference share
        pads = [f["length"] for f in meta["info"].get("files", []) if isinstance(f, dict) and f.get("attr") == "p"] if version == 1 else []
        if pads and isinstance(result, Rat):
            # a piece-aligned v1 metafile: "payload bytes" may or may not be read as including the padding entries
            stream_total = total
            for pl in pads:
                stream_total = stream_total + pl
            pay_matched = _payload_in_verifying_pieces(meta, sizes, P, table)
            E.check(disj(result == Rat(100 * ref_matched, stream_total), result == Rat(100 * pay_matched, total)), "C16.percentage",
                    "reported %r; reference %r/%r (padding counted) or %r/%r (payload only)" % (result, ref_matched, stream_total, pay_matched, total))
        else:
            check_percentage(E, result, ref_matched, total, consumed, "C16.percentage")
        # (2) piece by piece (only where the checker's sequence lines up with the reference table)
        if len(yields) == len(table):
            for k, (ok, n) in enumerate(table):
                chunk, piece, path, size = yields[k]
                if tb(size == n):
                    E.check((chunk == piece) == ok, "C16.piece-verdict",
                            "piece %d: checker says %s, reference says %s" % (k, chunk == piece, ok))
    for i, r in enumerate(rels):
        s = sizes[r]
        E.witness("empty file", s == 0)
        E.witness("file ends on piece boundary", s == P)
        E.witness("file one byte past boundary", s == P + 1)


# ------------------------------------------------------------------ concrete

def conc_world(params, model, workdir, seed):
    """Build real files + a real metafile for a scenario. Returns
    (metafile path, content path, expected per-file data, disk data-or-None, meta dict)."""
    shape, P, version = params["shape"], params["P"], params["version"]
    rels = SHAPES[shape]
    dmg = params["dmg"]
    sizes = cr.concrete_sizes(shape, model)
    data = {r: refconc.content(("f", 0 if params.get("dup") else i), sizes[r], seed) for i, r in enumerate(rels)}
    disk = {}
    for i, r in enumerate(rels):
        kind = dmg[i] if i < len(dmg) else "intact"
        d = data[r]
        if kind == "trunc":
            d = d[:int(model["t%d" % i])]
        elif kind == "missing":
            d = None
        elif kind == "flip":
            d = refconc.flip(d, int(model["o%d" % i]))
        disk[r] = d
    source = params.get("source", "ref")
    single = shape == "single"
    mpath = os.path.join(workdir, "t", "m.torrent")
    os.makedirs(os.path.dirname(mpath), exist_ok=True)
    if source == "ref":
        if version == 1:
            order = v1_order(shape)
        else:
            order = cr.tree_order(rels)
        files = [(r.split("/")[1:] if not single else ["name"], data[r]) for r in order]
        meta = refconc.build_meta(files, P, version, single=single, trailing_pad=params.get("trailing_pad", False),
                                  aligned=params.get("aligned", False))
        if single and version == 2 and params.get("v2_single_length", True):
            meta["info"]["length"] = len(data[rels[0]])
        meta["announce"] = "http://t/a"
        with open(mpath, "wb") as f:
            f.write(refconc.bencode(meta))
    else:
        # own creator on an intact copy
        idir = os.path.join(workdir, "intact")
        for r in rels:
            refconc.write_file(os.path.join(idir, r), data[r])
        which = {1: "1", 2: "2a", 3: "3a"}[version] if source == "own" else {1: "1", 2: "2c", 3: "3c"}[version]
        t = cr.real_create(which, path=os.path.join(idir, "name"), piece_length=P, outfile=mpath,
                           **({"align": True} if params.get("aligned") and version == 1 else {}))
        import io
        import contextlib
        with contextlib.redirect_stdout(io.StringIO()):
            t.write()
        meta = None
    for r in rels:
        if disk[r] is not None:
            refconc.write_file(os.path.join(workdir, "data", r), disk[r])
        else:
            os.makedirs(os.path.dirname(os.path.join(workdir, "data", r)), exist_ok=True)
    tname = params.get("tname")
    if tname:
        os.rename(os.path.join(workdir, "data", "name"), os.path.join(workdir, "data", tname))
        meta["info"]["name"] = tname
        if single and isinstance(meta["info"].get("file tree"), dict):
            meta["info"]["file tree"] = {tname: v for v in meta["info"]["file tree"].values()}
        with open(mpath, "wb") as f:
            f.write(refconc.bencode(meta))
    cpath = os.path.join(workdir, "data", tname or "name") if params.get("cpath", "root") == "root" else os.path.join(workdir, "data")
    if meta is not None:
        # sanity of the scenario itself (a malformed reference metafile must end as a harness error, not as a finding)
        tree = meta["info"].get("file tree")
        if single and isinstance(tree, dict):
            assert list(tree) == [meta["info"]["name"]], "harness error: single-file tree key %r != name %r" % (list(tree), meta["info"]["name"])
    return mpath, cpath, data, disk, sizes


def conc_table(version, shape, P, data, disk, order_v1):
    rels = SHAPES[shape]

    def ext(r):
        d = disk[r] if disk[r] is not None else b""
        return d + bytes(len(data[r]) - len(d))
    table = []
    if version == 1:
        exp = b"".join(data[r] for r in order_v1)
        dsk = b"".join(ext(r) for r in order_v1)
        for i in range(0, len(exp), P):
            table.append((exp[i:i + P] == dsk[i:i + P], len(exp[i:i + P])))
    else:
        for r in cr.tree_order(rels):
            e, d = data[r], ext(r)
            for i in range(0, len(e), P):
                table.append((e[i:i + P] == d[i:i + P], len(e[i:i + P])))
    return table


def conc_recheck(prop, params, model, workdir, seed):
    import io
    import contextlib
    mpath, cpath, data, disk, sizes = conc_world(params, model, workdir, seed)
    before = refconc.snapshot(workdir)
    mods = cr.real_torrentfile()
    R = mods["torrentfile.recheck"]
    yields = []
    try:
        with contextlib.redirect_stdout(io.StringIO()):
            c = R.Checker(mpath, cpath)
            for x in c.iter_hashes():
                yields.append((bytes(x[0]) == bytes(x[1]), x[3]))
            result = c._result
    except Exception as ex:  # noqa: BLE001
        return ["%s.no-exception: %s: %s" % (prop, type(ex).__name__, ex)]
    bad = []
    if refconc.snapshot(workdir) != before:
        bad.append(prop + ".read-only")
    total = sum(sizes.values())
    if prop == "C05":
        if result != 100:
            bad.append("C05.result==100 (got %r)" % (result,))
        if sum(n for _, n in yields) != total:
            bad.append("C05.consumed==total")
    elif prop == "C04":
        if not result < 100:
            bad.append("C04.result<100 (got %r)" % (result,))
    else:
        import pyben
        meta = pyben.load(mpath)
        info = meta["info"]
        if "files" in info and params["version"] == 1:
            order = ["/".join(["name"] + list(f["path"])) for f in info["files"]]
        else:
            order = v1_order(params["shape"])
        refs_ok = None
        aligned_v1 = params["version"] == 1 and any(isinstance(f, dict) and "attr" in f for f in info.get("files", []))
        table = [] if aligned_v1 else conc_table(params["version"], params["shape"], params["P"], data, disk, order)
        if aligned_v1:
            # piece-aligned v1: the stream contains the padding entries; either reading of "payload bytes" is accepted
            P_ = params["P"]
            exp, dsk, mask = bytearray(), bytearray(), bytearray()
            for f in info["files"]:
                if "attr" in f:
                    exp += bytes(f["length"]); dsk += bytes(f["length"]); mask += bytes(f["length"])
                else:
                    r = "/".join(["name"] + list(f["path"]))
                    d = disk[r] if disk[r] is not None else b""
                    exp += data[r]; dsk += d + bytes(len(data[r]) - len(d)); mask += b"\x01" * len(data[r])
            table = [(exp[i:i + P_] == dsk[i:i + P_], len(exp[i:i + P_])) for i in range(0, len(exp), P_)]
            m1 = sum(n for ok, n in table if ok)
            m2 = sum(sum(mask[i * P_:(i + 1) * P_]) for i, (ok, n) in enumerate(table) if ok)
            refs_ok = (m1 / len(exp) * 100, m2 / total * 100)
        if len(table) != len(yields):
            bad.append("C16.piece-count (%d vs %d)" % (len(yields), len(table)))
        for k, ((ok, n), (gok, gn)) in enumerate(zip(table, yields)):
            if ok != gok:
                bad.append("C16.piece-verdict[%d]" % k)
            if n != gn:
                bad.append("C16.piece-size[%d]" % k)
        ref = sum(n for ok, n in table if ok) / total * 100
        if refs_ok is not None:
            if not any(abs(result - r) < 1e-9 for r in refs_ok):
                bad.append("C16.percentage (%r vs %r)" % (result, refs_ok))
        elif result != ref:
            bad.append("C16.percentage (%r vs %r)" % (result, ref))
    return bad


def validate(prop, tier, workdir, seed):
    """Model validation: pinned scenarios through the model and through the
    unmodified package on real files; yields (verdict, size) and the reported
    number must agree."""
    import random
    from fractions import Fraction
    rnd = random.Random(seed + 404)
    runs, errs = 0, []
    cases = []
    for version in (1, 2, 3):
        for shape, dmg in (("single", ["trunc"]), ("flat2", ["intact", "flip"]), ("nested3", ["intact", "missing", "intact"]),
                           ("flat2", ["intact", "intact"]), ("nested3", ["trunc", "intact", "flip"])):
            cases.append((version, shape, dmg))
    if tier == "quick":
        cases = cases[::2]
    P = 16384
    for version, shape, dmg in cases:
        rels = SHAPES[shape]
        vals = {}
        for i, r in enumerate(rels):
            s = rnd.choice([1, P - 1, P, P + 1, 2 * P, rnd.randrange(1, 2 * P)])
            vals["s%d" % i] = s
            kind = dmg[i]
            if kind == "trunc":
                vals["t%d" % i] = rnd.randrange(0, s)
            if kind == "flip":
                vals["o%d" % i] = rnd.randrange(0, s)
        params = dict(prop=prop, version=version, shape=shape, P=P, K=2, dmg=dmg, source="ref")
        pin = cr.Pinned(vals)
        pin.capture = []
        job_recheck(pin, **params)
        m_result, m_yields = pin.capture[0]
        d = os.path.join(workdir, "val%d" % runs)
        os.makedirs(d)
        import io
        import contextlib
        mpath, cpath, data, disk, sizes = conc_world(params, vals, d, seed)
        mods = cr.real_torrentfile()
        with contextlib.redirect_stdout(io.StringIO()):
            c = mods["torrentfile.recheck"].Checker(mpath, cpath)
            r_yields = [(bytes(x[0]) == bytes(x[1]), x[3]) for x in c.iter_hashes()]
            r_result = c._result
        runs += 1
        mr = m_result
        if isinstance(mr, Rat):
            mr = int(mr.n) / int(mr.d)
        if m_yields != r_yields or abs(float(mr) - float(r_result)) > 1e-9:
            errs.append("model != real: v%d %s %r %r: model %r %r, real %r %r" % (version, shape, dmg, vals, mr, m_yields, r_result, r_yields))
    return runs, errs
