"""C02: v2 file tree, pieces roots and piece layers follow BEP 52 exactly."""
import os

from symx.core import tb, disj
from symx.abuf import ABuf
from symx.afs import AFS
from symx.loader import World

from harness import creators as cr
from harness import oracles as orc
from harness.creators import SHAPES, BLOCK
import refconc

PROPERTY = "C02"
MODULES = ["torrent", "hasher", "utils", "mixins", "cli", "commands"]
ASSUMPTIONS = [
    "A-hash model (injective, description-valued sha1/sha256); pass verdicts need no assumption on contents",
    "piece length is a configuration ({16,32,64} KiB; +128 KiB thorough) because P/16KiB drives concrete loop bounds; "
    "file sizes and listing order are solver variables",
    "two independent reference formulations (layer-wise, whole-tree) are proved equal on every path before use",
    "AFS: regular files, no short reads; progress bars stubbed",
]
WITNESSES = ["size < B", "size == B+1", "size == P", "size == P+1", "size == P-1", "3 pieces", "5 pieces", "empty file in tree"]
HASHERS = ["HasherV2", "HasherHybrid", "FileHasher", "FileHasher.hybrid"]


def BOUNDS(tier):
    q = tier == "quick"
    return {"single file": "size in [1, K*P], K=%d (13 at P=16 KiB), P in %s" % (5 if q else 9, "{16,32,64} KiB" if q else "{16,32,64,128} KiB"),
            "trees": "<= 3 files, each size in [0, 2P]" + ("" if q else "; 4-file shape at P=16 KiB"),
            "creators": "TorrentAssembler v2 + hybrid, TorrentFileV2, TorrentFileHybrid",
            "outside": "piece lengths above the listed ones; more pieces per file than K; other names/shapes"}


def jobs(tier):
    out = []
    q = tier == "quick"
    K = 5 if q else 9
    Ps = [16384, 32768, 65536] + ([] if q else [131072])
    for h in HASHERS:
        for P in Ps:
            out.append(("hasher.%s.P%d" % (h, P), "job_hasher", dict(hasher=h, P=P, K=(K if P > 16384 else 13) if P < 131072 else 5)))
    for h in HASHERS:
        out.append(("hasher-seq.%s" % h, "job_hasher_seq", dict(hasher=h, P1=16384, P2=32768, K=5)))
        out.append(("hasher-seq-down.%s" % h, "job_hasher_seq", dict(hasher=h, P1=65536, P2=16384, K=4)))
    # files around 1 MiB and 2 MiB (read-buffer sized boundaries that are neither block nor piece boundaries)
    for h in HASHERS:
        for base in (2 ** 20, 2 ** 21) if not q else ((2 ** 20,) if h != "FileHasher" else (2 ** 21,)):
            out.append(("hasher-big.%s.P32768.base%d" % (h, base), "job_hasher", dict(hasher=h, P=32768, K=2, base=base)))
    # content dependent paths: a file whose tail (from a solver-chosen offset) is all zero bytes
    for h in HASHERS:
        out.append(("hasher-zeros.%s.P32768" % h, "job_hasher", dict(hasher=h, P=32768, K=3, zeros=True)))
    # a second creation in the same process (class / module level state must not leak into the second metafile)
    for first, second in (("2c", "2c"), ("2a", "2a"), ("3c", "2a"), ("2c", "3a"), ("3a", "3c")) if not q else (("2c", "2c"), ("3a", "2a"), ("2a", "3c")):
        out.append(("tree-second.%s-then-%s" % (first, second), "job_tree_second", dict(first=first, second=second, P=16384)))
    from harness import matrix
    for i, row in matrix.rows(tier):
        for which in (("2a", "2c", "3a", "3c") if not q else (("2a", "3c") if i % 2 else ("2c", "3a"))):
            out.append(("matrix.%s.%s" % (which, matrix.label(i, row)), "job_matrix", dict(which=which, row=row)))
    for which in ("2a", "2c", "3a", "3c"):      # a directory reachable under two names (a symbolic link next to its target, no cycle)
        out.append(("tree.%s.directory-link" % which, "job_dirlink", dict(which=which, dirlink=True)))
    for shp in cr.scheme_shapes(["flat2", "nested3"], tier):
        for which in ("2a", "2c"):
            out.append(("tree.%s.%s.P16384" % (which, shp), "job_tree", dict(which=which, shape=shp, P=16384, K=1 if shp.startswith("nested3") else 2, order="reversed")))
    for which in ("2a", "2c", "3a", "3c"):
        out.append(("tree.%s.single.P32768" % which, "job_tree", dict(which=which, shape="single", P=32768, K=4, order="reversed")))
        out.append(("tree.%s.nested3.P16384" % which, "job_tree", dict(which=which, shape="nested3", P=16384, K=2, order="symbolic" if which == "2a" else "reversed")))
        out.append(("tree.%s.hidden2.P16384" % which, "job_tree", dict(which=which, shape="hidden2", P=16384, K=2, order="reversed")))
        out.append(("tree.%s.dir1.P16384" % which, "job_tree", dict(which=which, shape="dir1", P=16384, K=3, order="reversed")))
        out.append(("tree.%s.flat2.P32768" % which, "job_tree", dict(which=which, shape="flat2", P=32768, K=2, order="reversed")))
        if not q:
            out.append(("tree.%s.order2.P16384" % which, "job_tree", dict(which=which, shape="order2", P=16384, K=3, order="symbolic")))
            out.append(("tree.%s.nested4.P16384" % which, "job_tree", dict(which=which, shape="nested4", P=16384, K=2, order="reversed")))
            out.append(("tree.%s.flat3.P65536" % which, "job_tree", dict(which=which, shape="flat3", P=65536, K=2, order="reversed")))
    return out


def run_hasher(w, hasher, path, P):
    """(root, piece_layer, pieces or None, padding_file or None) from one of the
    four hasher configurations."""
    H = w.mod("hasher")
    np = w.mod("mixins").ProgMixin.NoProg()
    if hasher == "HasherV2":
        h = H.HasherV2(path, P, progress=0, progress_bar=np)
        return h.root, h.piece_layer, None, None
    if hasher == "HasherHybrid":
        h = H.HasherHybrid(path, P, progress=0, progress_bar=np)
        pieces = ABuf.of([])
        for p in h.pieces:
            pieces.extend(p)
        return h.root, h.piece_layer, pieces, h.padding_file
    hyb = hasher.endswith(".hybrid")
    h = H.FileHasher(path, P, progress=0, hybrid=hyb, progress_bar=np)
    layers = ABuf.of([])
    pieces = ABuf.of([])
    for res in h:
        if hyb:
            lh, pc = res
            pieces.extend(pc)
        else:
            lh = res
        layers.extend(lh)
    # the creator uses the yielded layer hashes; the object also keeps piece_layer
    if not (layers == h.piece_layer):
        return h.root, None, pieces if hyb else None, h.padding_file
    return h.root, h.piece_layer, pieces if hyb else None, h.padding_file


def _witness(E, s, P):
    E.witness("size < B", s < BLOCK)
    E.witness("size == B+1", s == BLOCK + 1)
    E.witness("size == P", s == P)
    E.witness("size == P+1", s == P + 1)
    E.witness("size == P-1", s == P - 1)
    E.witness("3 pieces", s == 3 * P - 5)
    E.witness("5 pieces", s == 4 * P + 1)


def job_hasher(E, hasher, P, K, zeros=False, base=0, _mutants=None):
    fs = AFS()
    s = E.int("s0", base + 1, base + K * P)          # base: a large fixed prefix (boundaries of read buffers far above a piece)
    content = ABuf.file(("f", 0), s)
    if zeros:
        z = E.int("zero_from", 0, None)          # bytes [zero_from, s) are zero
        E.assume(z < s)
        content = ABuf.of([("F", ("f", 0), 0, z), ("Z", None, 0, s - z)]) if tb(z > 0) else ABuf(s)
        path = fs.add_content("/data/f", content)
    else:
        path = fs.add("/data/f", ("f", 0), s)
    E.note("files", ["f"])
    w = World(fs, mutants=_mutants)
    try:
        root, layer, pieces, pad = run_hasher(w, hasher, path, P)
    except Exception as ex:  # noqa: BLE001
        E.fail("C02.hasher.no-exception", "%s: %s" % (type(ex).__name__, ex))
        return
    rroot, rlayer, npieces = orc.v2_reference(E, content, P, "C02")
    E.check(root == rroot, "C02.hasher.root", "%s root differs from BEP 52 reference" % hasher)
    if tb(s > P):
        E.check(layer is not None and layer == rlayer, "C02.hasher.layer", "%s piece layer differs from reference" % hasher)
    else:
        # for a file of at most one piece the 'layer' is the root itself (not recorded in the metafile)
        E.check(layer is not None and layer == rroot, "C02.hasher.layer-small")
    _witness(E, s, P)


def job_hasher_seq(E, hasher, P1, P2, K, _mutants=None):
    """Two files hashed one after the other by the same process with different
    piece lengths (module / class level state must not leak between them)."""
    fs = AFS()
    s0 = E.int("s0", 2 * P1 + 1, 3 * P1)          # three pieces: a padding piece is needed
    s1 = E.int("s1", 1, K * P2)
    p0 = fs.add("/data/f0", ("f", 0), s0)
    p1 = fs.add("/data/f1", ("f", 1), s1)
    E.note("files", ["f0", "f1"])
    w = World(fs, mutants=_mutants)
    try:
        run_hasher(w, hasher, p0, P1)
        root, layer, pieces, pad = run_hasher(w, hasher, p1, P2)
    except Exception as ex:  # noqa: BLE001
        E.fail("C02.hasher.no-exception", "%s: %s" % (type(ex).__name__, ex))
        return
    rroot, rlayer, npieces = orc.v2_reference(E, ABuf.file(("f", 1), s1), P2, "C02")
    E.check(root == rroot, "C02.hasher-seq.root", "%s root after an earlier run with another piece length differs from reference" % hasher)
    if tb(s1 > P2):
        E.check(layer is not None and layer == rlayer, "C02.hasher-seq.layer")


def job_matrix(E, which, row, _mutants=None):
    from harness import matrix
    matrix.run(E, which, row, lambda e, meta, sizes, Pn, shape: orc.oracle_v2(e, meta, sizes, Pn, shape, "C02.matrix"),
               "C02.matrix", _mutants=_mutants)


DIRLINK = ["name/alias/x", "name/shared/x", "name/z"]


def job_dirlink(E, which, dirlink=True, _mutants=None):
    """name/alias is a symbolic link to the directory name/shared: both names are payload (the files below them are
    listed and hashed under both), exactly as for two independent directories with equal contents."""
    P = 16384
    fs = AFS(order="reversed")
    s0, s1 = E.int("s0", 1, 2 * P), E.int("s1", 0, P)
    fs.add("/data/name/shared/x", ("f", 0), s0)
    fs.add("/data/name/z", ("f", 1), s1)
    fs.add_link("/data/name/alias", "shared")
    E.note("shape", "dirlink3")
    sizes = {"name/alias/x": s0, "name/shared/x": s0, "name/z": s1}
    SHAPES["dirlink3"] = DIRLINK
    save = cr.fid_of
    cr.fid_of = lambda shape, rel, names=None: ("f", 1) if rel.endswith("/z") else ("f", 0)
    try:
        w = World(fs, mutants=_mutants)
        try:
            t = cr.create(w, which, path="/data/name", piece_length=P, progress=0)
        except Exception as ex:  # noqa: BLE001
            E.fail("C02.no-exception", "%s: %s" % (type(ex).__name__, ex))
            return
        orc.oracle_v2(E, t.meta, sizes, P, "dirlink3", "C02.dirlink")
    finally:
        cr.fid_of = save


def job_tree_second(E, first, second, P, _mutants=None):
    """Two creations in one process over two different trees: the second metafile must describe the second tree only."""
    fs = AFS(order="reversed")
    t0 = E.int("t0", P + 1, 3 * P)               # the first tree has a multi-piece file (piece layers are recorded)
    fs.add("/first/other/big", ("g", 0), t0)
    fs.add("/first/other/small", ("g", 1), 5)
    shape = "flat2"
    rels = SHAPES[shape]
    sizes = {}
    for i, r in enumerate(rels):
        sizes[r] = E.int("s%d" % i, 0, 2 * P)
        fs.add("/data/" + r, ("f", i), sizes[r])
    E.assume(disj(*[s > 0 for s in sizes.values()]))
    E.note("shape", shape)
    w = World(fs, mutants=_mutants)
    try:
        cr.create(w, first, path="/first/other", piece_length=P, progress=0)
        t = cr.create(w, second, path="/data/name", piece_length=P, progress=0)
    except Exception as ex:  # noqa: BLE001
        E.fail("C02.no-exception", "%s: %s" % (type(ex).__name__, ex))
        return
    orc.oracle_v2(E, t.meta, sizes, P, shape, "C02.second")


def job_tree(E, which, shape, P, K, order, _mutants=None):
    fs, sizes = cr.make_fs(E, shape, K, P, order=order, lo=1 if shape == "single" else 0)
    if shape != "single":
        E.assume(disj(*[s > 0 for s in sizes.values()]))
    w = World(fs, mutants=_mutants)
    try:
        t = cr.create(w, which, path="/data/name", piece_length=P, progress=0)
    except Exception as ex:  # noqa: BLE001
        E.fail("C02.no-exception", "%s: %s" % (type(ex).__name__, ex))
        return
    orc.oracle_v2(E, t.meta, sizes, P, shape, "C02")
    E.check(not fs.log, "C02.no-writes")
    for s in sizes.values():
        E.witness("empty file in tree", s == 0)
        _witness(E, s, P)


# ------------------------------------------------------------------ concrete

def replay(params, model, notes, workdir, seed):
    if "row" in params:
        from harness import matrix
        row = params["row"]
        meta, data, Pn = matrix.replay(params["which"], row, model, workdir, seed)
        if isinstance(meta, BaseException):
            return ["C02.matrix.no-exception: %s: %s" % (type(meta).__name__, meta)]
        return ["C02.matrix." + b for b in cr.conc_v2(meta, data, Pn, row["tree"] == "single")]
    if "P1" in params:
        P1, P2, hasher = params["P1"], params["P2"], params["hasher"]
        s0, s1 = int(model["s0"]), int(model["s1"])
        d0, d1 = refconc.content(("f", 0), s0, seed), refconc.content(("f", 1), s1, seed)
        p0, p1 = os.path.join(workdir, "data", "f0"), os.path.join(workdir, "data", "f1")
        refconc.write_file(p0, d0)
        refconc.write_file(p1, d1)
        mods = cr.real_torrentfile()
        from harness import c10
        H = mods["torrentfile.hasher"]
        np_ = mods["torrentfile.mixins"].ProgMixin.NoProg()
        c10._real_hasher(H, np_, hasher, p0, P1)
        root, layer, _, _ = c10._real_hasher(H, np_, hasher, p1, P2)
        rroot, rlayer = refconc.v2_file(d1, P2)
        bad = []
        if root != rroot:
            bad.append("C02.hasher-seq.root")
        if layer != (rlayer if rlayer is not None else rroot):
            bad.append("C02.hasher-seq.layer")
        return bad
    if params.get("dirlink"):
        s0, s1 = int(model["s0"]), int(model["s1"])
        x, z = refconc.content(("f", 0), s0, seed), refconc.content(("f", 1), s1, seed)
        refconc.write_file(os.path.join(workdir, "data", "name", "shared", "x"), x)
        refconc.write_file(os.path.join(workdir, "data", "name", "z"), z)
        os.symlink("shared", os.path.join(workdir, "data", "name", "alias"))
        try:
            t = cr.real_create(params["which"], path=os.path.join(workdir, "data", "name"), piece_length=16384)
        except Exception as ex:  # noqa: BLE001
            return ["C02.no-exception: %s: %s" % (type(ex).__name__, ex)]
        SHAPES["dirlink3"] = DIRLINK
        return ["C02.dirlink." + b for b in cr.conc_v2(t.meta, {"name/alias/x": x, "name/shared/x": x, "name/z": z}, 16384, False)]
    P = params["P"]
    if "first" in params:
        shape = "flat2"
        sizes = cr.concrete_sizes(shape, model)
        root, data = cr.materialize(workdir, shape, sizes, seed)
        refconc.write_file(os.path.join(workdir, "first", "other", "big"), refconc.content(("g", 0), int(model["t0"]), seed))
        refconc.write_file(os.path.join(workdir, "first", "other", "small"), refconc.content(("g", 1), 5, seed))
        mods = cr.real_torrentfile()
        T = mods["torrentfile.torrent"]
        import io
        import contextlib
        try:
            with contextlib.redirect_stdout(io.StringIO()):
                for which, pth in ((params["first"], os.path.join(workdir, "first", "other")), (params["second"], root)):
                    cls, mv = cr.CLS[which]
                    kw = dict(path=pth, piece_length=P, progress=0)
                    if mv is not None:
                        kw["meta_version"] = mv
                    t = getattr(T, cls)(**kw)
        except Exception as ex:  # noqa: BLE001
            return ["C02.no-exception: %s: %s" % (type(ex).__name__, ex)]
        return ["C02.second." + b for b in cr.conc_v2(t.meta, data, P, False)]
    if "hasher" in params:
        s = int(model["s0"])
        data = refconc.content(("f", 0), s, seed)
        if params.get("zeros"):
            z = int(model.get("zero_from", 0))
            data = data[:z] + bytes(s - z)
        p = os.path.join(workdir, "data", "f")
        refconc.write_file(p, data)
        mods = cr.real_torrentfile()
        H = mods["torrentfile.hasher"]
        np = mods["torrentfile.mixins"].ProgMixin.NoProg()
        hasher = params["hasher"]
        if hasher == "HasherV2":
            h = H.HasherV2(p, P, progress=0, progress_bar=np)
            root, layer = h.root, h.piece_layer
        elif hasher == "HasherHybrid":
            h = H.HasherHybrid(p, P, progress=0, progress_bar=np)
            root, layer = h.root, h.piece_layer
        else:
            h = H.FileHasher(p, P, progress=0, hybrid=hasher.endswith(".hybrid"), progress_bar=np)
            layer = b"".join(bytes(r[0] if isinstance(r, tuple) else r) for r in h)
            root = h.root
        rroot, rlayer = refconc.v2_file(data, P)
        bad = []
        if bytes(root) != rroot:
            bad.append("C02.hasher.root")
        if bytes(layer) != (rlayer if rlayer is not None else rroot):
            bad.append("C02.hasher.layer")
        return bad
    shape = params["shape"]
    sizes = cr.concrete_sizes(shape, model)
    root, data = cr.materialize(workdir, shape, sizes, seed)
    try:
        t = cr.real_create(params["which"], path=root, piece_length=P)
    except Exception as ex:  # noqa: BLE001
        return ["C02.no-exception: %s: %s" % (type(ex).__name__, ex)]
    return ["C02." + b for b in cr.conc_v2(t.meta, data, P, shape == "single")]


def validate(tier, workdir, seed):
    import random
    rnd = random.Random(seed + 202)
    runs, errs = 0, []
    cases = []
    for which in ("2a", "2c", "3a", "3c"):
        for shape, P in (("single", 32768), ("nested3", 16384), ("flat2", 65536)):
            n = len(SHAPES[shape])
            cases.append((which, shape, P, [rnd.choice([1, BLOCK - 1, BLOCK + 1, P - 1, P, P + 1, 2 * P, 3 * P - 7, rnd.randrange(1, 4 * P)])
                                            for _ in range(n)]))
    if tier == "quick":
        cases = cases[::2]
    for which, shape, P, ss in cases:
        pin = cr.Pinned({"s%d" % i: v for i, v in enumerate(ss)})
        fs, sizes = cr.make_fs(pin, shape, 4, P)
        w = World(fs)
        t = cr.create(w, which, path="/data/name", piece_length=P, progress=0)
        files = {("f", i): refconc.content(("f", i), v, seed) for i, v in enumerate(ss)}
        m = dict(t.meta)
        m.pop("creation date", None)
        model_meta = cr.canon_meta(m, files)
        d = os.path.join(workdir, "val%d" % runs)
        root, data = cr.materialize(d, shape, {r: ss[i] for i, r in enumerate(SHAPES[shape])}, seed)
        rm = dict(cr.real_create(which, path=root, piece_length=P).meta)
        rm.pop("creation date", None)
        real = cr.norm_real(rm)
        runs += 1
        if model_meta != real:
            errs.append("model != real for %s %s P=%d sizes=%r" % (which, shape, P, ss))
    return runs, errs


def canaries(tier):
    return [
        ("HasherV2: pad single-piece file to piece width instead of next power of two",
         {"hasher": [("                if not self.layer_hashes:\n                    # when the there is only one block for file\n                    power2 = next_power_2(len(blocks))\n                    remaining = power2 - len(blocks)\n", "")]},
         ["hasher.HasherV2.P65536", "tree.2c.single*"]),
        ("FileHasher: last partial piece padded to a power of two (layer_hashes test inverted)",
         {"hasher": [("        remaining = self.amount - block_count\n        if not self.layer_hashes:\n            power2 = next_power_2(block_count)\n            remaining = power2 - block_count\n        return [bytes(HASH_SIZE) for _ in range(remaining)]\n\n    def __next__",
                      "        remaining = self.amount - block_count\n        if self.layer_hashes:\n            power2 = next_power_2(block_count)\n            remaining = power2 - block_count\n        return [bytes(HASH_SIZE) for _ in range(remaining)]\n\n    def __next__")]},
         ["hasher.FileHasher.P65536", "tree.2a.single*"]),
        ("TorrentAssembler: piece layer recorded for size >= piece length",
         {"torrent": [("            if file_size > self.piece_length:\n                self.piece_layers[hasher.root] = layers",
                       "            if file_size >= self.piece_length:\n                self.piece_layers[hasher.root] = layers")]},
         ["tree.2a.*", "tree.3a.*"]),
        ("TorrentFileV2: empty file given a root of nothing",
         {"torrent": [("            if size == 0:\n                return {\"\": {\"length\": size}}\n\n            logger.debug(\"Hashing %s\", str(path))\n            fhash = HasherV2",
                       "            logger.debug(\"Hashing %s\", str(path))\n            fhash = HasherV2")]},
         ["tree.2c.*"]),
    ]


if __name__ == "__main__":
    from harness import common
    raise SystemExit(common.main("harness.c02"))
