"""C07: edit changes only the named fields; hash-bearing data is untouched."""
import itertools
import os
import types

from symx.core import Unsupported
from symx.afs import AFS
from symx.loader import World, BenTok, ben_equal, ben_copy
from symx.ostr import OStr

from harness import editw as ew
from harness.editw import FIELDS, MPATH, Expect
from harness import creators as cr
import refconc

PROPERTY = "C07"
MODULES = ["edit", "commands"]
ASSUMPTIONS = [
    "string values are opaque (observational abstraction): the verdict holds for strings of any length and alphabet "
    "because filter_empty/edit_torrent only observe emptiness, isinstance and str.split(); the real split semantics "
    "is Python's own and not re-verified here",
    "distinct opaque strings are distinct strings; list values have 1-2 non-empty elements",
    "base metafiles are canonically ordered v1/v2/hybrid dictionaries with each optional key present or absent "
    "(forked); hash-bearing values are opaque tokens",
    "pyben load/dump are pass-through (A-pyben): the object dumped is the file's new content",
    "a whitespace-only string for a list-valued field and non-boolean values for `private` are not judged",
    "CLI route = commands.edit on an argparse-shaped Namespace (list-or-None for trackers/seeds, str-or-None for "
    "comment/source, bool for --private: store_true never yields None); command-line tokenisation itself is outside",
]
WITNESSES = ["field cleared while present", "field set while absent", "info-only untouched case", "two edits, last write wins"]
PAIRS = list(itertools.combinations(FIELDS, 2))
KINDS = {"announce": ["unnamed", "cleared", "str", "list1", "list2"], "url-list": ["unnamed", "cleared", "str", "list1", "list2"],
         "httpseeds": ["unnamed", "cleared", "str", "list2"], "comment": ["unnamed", "cleared", "str"],
         "source": ["unnamed", "cleared", "str"], "private": ["unnamed", "true", "false", "cleared"]}
CLI_KINDS = {"announce": ["unnamed", "list1", "list2"], "url-list": ["unnamed", "list1"], "httpseeds": ["unnamed", "list2"],
             "comment": ["unnamed", "cleared", "str"], "source": ["unnamed", "str"], "private": ["false", "true"]}
BASEKEY = {"announce": "announce", "url-list": "url-list", "httpseeds": "httpseeds", "comment": "comment", "source": "source",
           "private": "private"}


def BOUNDS(tier):
    q = tier == "quick"
    return {"fields per request": "every pair of the six fields over all value kinds (others unnamed), plus all six at once",
            "value kinds": "unnamed | '' | opaque string (0..2 words) | list of 1-2 opaque strings; private: unnamed/True/False/''",
            "base": "v1, v2, hybrid x presence of the keys the request touches + one bystander key"
                    + ("" if q else " + a top-level comment key"),
            "histories": "2 consecutive edits" + ("" if q else " and 3 consecutive edits on overlapping fields"),
            "routes": "edit.edit_torrent (library), commands.edit (CLI-shaped Namespace)",
            "outside": "lists longer than 2, values of other types, non-canonical base metafiles"}


def jobs(tier):
    q = tier == "quick"
    out = []
    for version in (1, 2, 3):
        for f1, f2 in PAIRS:
            if q and version != 1 and (f1, f2) not in (("announce", "private"), ("comment", "source"), ("url-list", "httpseeds")):
                continue
            out.append(("lib.v%d.%s+%s" % (version, f1, f2), "job_pair", dict(version=version, fields=[f1, f2], route="lib")))
        out.append(("lib.v%d.all" % version, "job_all", dict(version=version, route="lib")))
        out.append(("cli.v%d.all" % version, "job_all", dict(version=version, route="cli")))
    for f1, f2 in PAIRS:
        out.append(("cli.v3.%s+%s" % (f1, f2), "job_pair", dict(version=3, fields=[f1, f2], route="cli")))
    for f in FIELDS:
        out.append(("hist2.%s" % f, "job_history", dict(version=3 if f != "announce" else 1, steps=[[f], [f]], route="lib")))
    out.append(("hist2.comment>announce", "job_history", dict(version=2, steps=[["comment"], ["announce"]], route="lib")))
    out.append(("hist2.source>url-list", "job_history", dict(version=1, steps=[["source"], ["url-list"]], route="lib")))
    out.append(("hist2.private>httpseeds", "job_history", dict(version=3, steps=[["private"], ["httpseeds"]], route="lib")))
    out.append(("hist2.private>comment.cli", "job_history", dict(version=1, steps=[["private"], ["comment"]], route="cli")))
    if not q:
        out.append(("hist3.announce.url-list", "job_history", dict(version=3, steps=[["announce"], ["url-list", "announce"], ["announce"]], route="lib")))
        out.append(("hist3.comment.source.private", "job_history", dict(version=1, steps=[["comment", "source"], ["private"], ["comment"]], route="lib")))
    for version in (1, 2, 3):
        out.append(("argv.v%d" % version, "job_argv", dict(version=version)))
    for version in (1, 3):
        out.append(("lib.v%d.topcomment" % version, "job_pair", dict(version=version, fields=["comment", "source"], route="lib", topcomment=True)))
    return out


def do_edit(E, w, route, req):
    """Run one edit request through the chosen route; returns (ok, exception)."""
    try:
        if route == "lib":
            w.mod("edit").edit_torrent(MPATH, dict(req))
        else:
            ns = types.SimpleNamespace(metafile=MPATH, url_list=req.get("url-list"), httpseeds=req.get("httpseeds"),
                                       announce=req.get("announce"), source=req.get("source"),
                                       private=req.get("private", False), comment=req.get("comment"))
            w.mod("commands").edit(ns)
        return True, None
    except Unsupported:
        raise
    except Exception as ex:  # noqa: BLE001
        return False, ex


def setup(E, version, force, _mutants):
    fs = AFS()
    base = ew.base_meta(E, version, force)
    fs.add_token(MPATH, BenTok(ben_copy(base)))
    w = World(fs, mutants=_mutants)
    return fs, w, base


def judge_exception(E, ex, req, tag):
    """An exception is acceptable only for requests the statement does not cover
    (whitespace-only tracker/seed strings); otherwise the edit must succeed."""
    for f, v in req.items():
        if isinstance(v, OStr) and f in ew.TOP and v._nonempty and v._split.get(None) == []:
            return
    E.fail(tag + ".no-exception", "%s: %s" % (type(ex).__name__, ex))


def job_pair(E, version, fields, route, topcomment=False, _mutants=None):
    kinds_tab = CLI_KINDS if route == "cli" else KINDS
    bystander = "comment" if "comment" not in fields else ("source" if "source" not in fields else "announce")
    force = {k: False for k in ("announce", "comment-top", "httpseeds", "comment", "private", "source", "url-list")}
    for f in fields + [bystander]:
        force.pop(BASEKEY[f], None)
    if topcomment:
        force["comment-top"] = True
    if version == 1:
        force["layers"] = True
    fs, w, base = setup(E, version, force, _mutants)
    kinds = {}
    for f in fields:
        opts = kinds_tab[f]
        kinds[f] = opts[E.choice("kind.%s" % f, len(opts))]
    if route == "cli" and "private" not in kinds:
        kinds["private"] = "false"
    E.note("kinds", kinds)
    req = ew.request(E, kinds)
    ok, ex = do_edit(E, w, route, req)
    if not ok:
        judge_exception(E, ex, req, "C07")
        return
    after = ew.file_obj(fs)
    if not E.check(isinstance(after, dict), "C07.file-is-metafile", "after the edit the file holds %r" % (after,)):
        return
    ew.check_edit(E, "C07", base, after, [Expect(f, req[f], cli=route == "cli") for f in req])
    for f in fields:
        k, _ = Expect(f, req[f]).outcome()
        key = ("top", ew.TOP[f]) if f in ew.TOP else ("info", ew.INFO[f])
        present = (key[1] in base) if key[0] == "top" else (key[1] in base["info"])
        if k == Expect.REMOVED and present:
            E.witnesses["field cleared while present"] = True
        if k == Expect.SET and not present:
            E.witnesses["field set while absent"] = True
    if all(f in ew.TOP for f in fields):
        E.witnesses["info-only untouched case"] = True


ARGVS = [
    (["--comment", "a new comment"], {"comment": "a new comment"}),
    (["--tracker", "http://t/1", "http://t/2"], {"announce": ["http://t/1", "http://t/2"]}),
    (["--web-seed", "http://w/1", "--http-seed", "http://h/1", "http://h/2"], {"url-list": ["http://w/1"], "httpseeds": ["http://h/1", "http://h/2"]}),
    (["--private", "--source", "SRC"], {"private": True, "source": "SRC"}),
    (["--comment", "", "--source", ""], {"comment": "", "source": ""}),
    (["--source", "x", "--comment", "y", "--tracker", "http://t/9", "--private"], {"source": "x", "comment": "y", "announce": ["http://t/9"], "private": True}),
]


def job_argv(E, version, _mutants=None):
    """The same edits through the real command line parser (cli.execute) on concrete argument vectors, options before
    and after the positional metafile."""
    force = {"comment-top": False}
    if version == 1:
        force["layers"] = True
    fs, w, base = setup(E, version, force, _mutants)
    i = E.choice("argv", len(ARGVS))
    opts, req = ARGVS[i]
    argv = ["edit"] + (opts + [MPATH] if E.choice("argv.positional-last", 2) and "--tracker" not in opts[-3:] and "--http-seed" not in opts
                       else [MPATH] + opts)
    E.note("argv", argv)
    try:
        w.mod("cli").execute(list(argv))
    except Unsupported:
        raise
    except SystemExit as ex:
        E.fail("C07.argv.parser-accepts", "%r: %s" % (argv, ex))
        return
    except Exception as ex:  # noqa: BLE001
        E.fail("C07.argv.no-exception", "%r: %s: %s" % (argv, type(ex).__name__, ex))
        return
    after = ew.file_obj(fs)
    if not E.check(isinstance(after, dict), "C07.argv.file-is-metafile"):
        return
    ew.check_edit(E, "C07.argv", base, after, [Expect(f, v, cli=True) for f, v in req.items()])


def job_all(E, version, route, _mutants=None):
    force = {"comment-top": False}
    if version == 1:
        force["layers"] = True
    fs, w, base = setup(E, version, force, _mutants)
    kinds = {"announce": "list2" if route == "cli" else "str", "url-list": "list1", "httpseeds": "list2", "comment": "str",
             "source": "str", "private": "true"}
    req = ew.request(E, kinds)
    ok, ex = do_edit(E, w, route, req)
    if not ok:
        judge_exception(E, ex, req, "C07")
        return
    after = ew.file_obj(fs)
    if not E.check(isinstance(after, dict), "C07.file-is-metafile"):
        return
    ew.check_edit(E, "C07", base, after, [Expect(f, req[f], cli=route == "cli") for f in req])


def job_history(E, version, steps, route, _mutants=None):
    touched = sorted({f for st in steps for f in st})
    force = {k: False for k in ("announce", "comment-top", "httpseeds", "comment", "private", "source", "url-list")}
    for f in touched:
        force.pop(BASEKEY[f], None)
    force["layers"] = True
    fs, w, base = setup(E, version, force, _mutants)
    kinds_tab = CLI_KINDS if route == "cli" else KINDS
    last = {}
    for i, st in enumerate(steps):
        kinds = {}
        for f in st:
            opts = kinds_tab[f]
            kinds[f] = opts[E.choice("kind%d.%s" % (i, f), len(opts))]
        if route == "cli" and "private" not in kinds:
            kinds["private"] = "false"
        req = ew.request(E, kinds, tag=str(i))
        from symx.loader import ben_copy, ben_equal
        prev = ew.file_obj(fs)
        prev_info = ben_copy(prev["info"]) if isinstance(prev, dict) else None
        ok, ex = do_edit(E, w, route, req)
        if not ok:
            judge_exception(E, ex, req, "C07.hist")
            return
        now = ew.file_obj(fs)
        if prev_info is not None and isinstance(now, dict) and all(
                f in ew.TOP or Expect(f, v, cli=route == "cli").outcome()[0] == Expect.UNTOUCHED for f, v in req.items()):
            # a step that names only trackers / seeds: the info dictionary (hence the info-hash) is what the previous step left
            E.check(ben_equal(prev_info, now.get("info")), "C07.hist.step-info-hash-unchanged",
                    "step %d named only %r but the info dictionary differs from the one the previous step wrote (keys %r -> %r)"
                    % (i, sorted(req), list(prev_info), list(now.get("info", {}))))
        for f, v in req.items():
            ex_ = Expect(f, v, cli=route == "cli")
            if ex_.outcome()[0] != Expect.UNTOUCHED:
                last[f] = ex_
    after = ew.file_obj(fs)
    if not E.check(isinstance(after, dict), "C07.hist.file-is-metafile"):
        return
    ew.check_edit(E, "C07.hist", base, after, list(last.values()))
    E.witnesses["two edits, last write wins"] = True


# ------------------------------------------------------------------ concrete replay

def conc_value(kind, field, model_words=1, tag=""):
    if kind == "unnamed":
        return None
    if kind == "cleared":
        return ""
    if kind == "str":
        if field in ("comment", "source"):
            return "%s%s e\u0301 \u212b text" % (field, tag)          # not stable under Unicode normalisation
        return " ".join("http://%s%s/w%d" % (field.replace("-", ""), tag, i) for i in range(max(1, model_words)))
    if kind == "list1":
        return ["http://%s%s/l0" % (field, tag)]
    if kind == "list2":
        return ["http://%s%s/l0" % (field, tag), "http://%s%s/l1" % (field, tag)]
    if kind == "true":
        return True
    if kind == "false":
        return False


def conc_base(version, model, force_top=False):
    def has(k):
        return int(model.get("base.%s" % k, 0)) == 1
    meta = {}
    if has("announce"):
        meta["announce"] = "http://old/a"
        meta["announce-list"] = [["http://old/a"]]
    if force_top or has("comment-top"):
        meta["comment"] = "old top comment"
    meta["created by"] = "someone"
    meta["creation date"] = 1234567890
    if has("httpseeds"):
        meta["httpseeds"] = ["http://old/h"]
    info = {}
    if has("comment"):
        info["comment"] = "old comme\u0301nt"
    layered = int(model.get("base.layers", 1)) == 1
    big = 70000 if layered else 30000
    nb = 40000 if layered else 5
    data_a, data_b, data_c = refconc.content("a", big), refconc.content("b", nb), refconc.content("c", 7)
    if version in (2, 3):
        ra, la = refconc.v2_file(data_a, 32768)
        rb, lb = refconc.v2_file(data_b, 32768)
        if layered:
            # contents are chosen so that the two roots collate differently as bytes and as the text str() gives for
            # them (a sort by the wrong key then shows); the input itself is canonical
            for k in range(400):
                data_a, data_b = refconc.content("a%d" % k, big), refconc.content("b%d" % k, nb)
                ra, la = refconc.v2_file(data_a, 32768)
                rb, lb = refconc.v2_file(data_b, 32768)
                if ra < rb and str(ra) > str(rb):
                    break
        rc, _ = refconc.v2_file(data_c, 32768)
        info["file tree"] = {"announce": {"": {"length": big, "pieces root": ra}}, "comment": {"": {"length": nb, "pieces root": rb}},
                             "private": {"source": {"": {"length": 7, "pieces root": rc}}, "url-list": {"": {"length": 0}}}}
    if version in (1, 3):
        info["files"] = [{"length": big, "path": ["announce"]}, {"length": nb, "path": ["comment"]},
                         {"length": 7, "path": ["private", "source"]}, {"length": 0, "path": ["private", "url-list"]}]
    if version in (2, 3):
        info["meta version"] = 2
    info["name"] = "na\u0301me \u212b"          # not stable under Unicode normalisation
    info["piece length"] = 32768
    if version in (1, 3):
        info["pieces"] = refconc.v1_pieces(data_a + data_b + data_c, 32768)
    if has("private"):
        info["private"] = 1
    if has("source"):
        info["source"] = "old source \ufb01"
    meta["info"] = info
    if version in (2, 3):
        meta["piece layers"] = dict(sorted({r: l for r, l in ((ra, la), (rb, lb)) if l is not None}.items()))
    if has("url-list"):
        meta["url-list"] = ["http://old/w"]
    return meta


def _norm(x):
    if isinstance(x, dict):
        return [(k.encode() if isinstance(k, str) else bytes(k), _norm(v)) for k, v in x.items()]
    if isinstance(x, (list, tuple)):
        return [_norm(v) for v in x]
    if isinstance(x, str):
        return x.encode()
    if isinstance(x, (bytes, bytearray)):
        return bytes(x)
    return x


def conc_check(before, after, reqs, cli):
    """Concrete version of check_edit over a sequence of requests."""
    bad = []
    last = {}
    for req in reqs:
        for f, v in req.items():
            if v is None or (f == "private" and v is False):
                continue
            last[f] = v
    named = set()
    only_top = True
    for f, v in last.items():
        named.update(ew.named_keys(f))
        if f in ew.INFO:
            only_top = False
        where = after if f in ew.TOP else after.get("info", {})
        key = ew.TOP.get(f) or ew.INFO[f]
        if v == "":
            if key in where:
                bad.append("cleared-removed:%s" % f)
        elif f == "private":
            if v is True and where.get("private") != 1:
                bad.append("set.private")
        elif f == "announce":
            words = v.split() if isinstance(v, str) else list(v)
            if words and (after.get("announce") != words[0] or after.get("announce-list") != [words]):
                bad.append("set.announce")
        elif f in ew.TOP:
            words = v.split() if isinstance(v, str) else list(v)
            if words and where.get(key) != words:
                bad.append("set.%s" % f)
        elif where.get(key) != v:
            bad.append("set.%s" % f)
    b_top = [(k, v) for k, v in before.items() if k != "info" and ("top", k) not in named]
    a_top = [(k, v) for k, v in after.items() if k != "info" and ("top", k) not in named]
    if _norm(dict(b_top)) != _norm(dict(a_top)):
        bad.append("unnamed-top-unchanged")
    b_info = [(k, v) for k, v in before["info"].items() if ("info", k) not in named]
    a_info = [(k, v) for k, v in after.get("info", {}).items() if ("info", k) not in named]
    if _norm(dict(b_info)) != _norm(dict(a_info)):
        bad.append("unnamed-info-unchanged")
    if only_top and _norm(before["info"]) != _norm(after.get("info")):
        bad.append("info-hash-unchanged")
    return bad


def _replay_argv(params, model, notes, workdir):
    import io
    import contextlib
    import sys
    import pyben
    version = params["version"]
    base = conc_base(version, model)
    mpath = os.path.join(workdir, "m.torrent")
    with open(mpath, "wb") as f:
        f.write(refconc.bencode(base))
    before = pyben.load(mpath)
    opts, req = ARGVS[int(model.get("argv", 0))]
    argv = [a if a != MPATH else mpath for a in notes.get("argv", ["edit", MPATH] + opts)]
    cr.real_torrentfile()
    import torrentfile.cli  # noqa: F401
    cli = sys.modules["torrentfile.cli"]
    try:
        with contextlib.redirect_stdout(io.StringIO()), contextlib.redirect_stderr(io.StringIO()):
            cli.execute(list(argv))
    except BaseException as ex:  # noqa: BLE001
        return ["C07.argv.no-exception: %r" % (ex,)]
    after = pyben.load(mpath)
    return ["C07.argv." + b for b in conc_check(before, after, [req], True)]


def replay(params, model, notes, workdir, seed):
    import pyben
    if "route" not in params:
        return _replay_argv(params, model, notes, workdir)
    version, route = params["version"], params["route"]
    base = conc_base(version, model, params.get("topcomment", False))
    mpath = os.path.join(workdir, "m.torrent")
    with open(mpath, "wb") as f:
        f.write(refconc.bencode(base))
    before = pyben.load(mpath)
    raw_info_before = refconc.raw_info_bytes(open(mpath, "rb").read())
    kinds_tab = CLI_KINDS if route == "cli" else KINDS
    if "steps" in params:
        steps = params["steps"]
    elif "fields" in params:
        steps = [params["fields"]]
    else:
        steps = None
    reqs = []
    if steps is None:
        kinds = {"announce": "list2" if route == "cli" else "str", "url-list": "list1", "httpseeds": "list2", "comment": "str",
                 "source": "str", "private": "true"}
        reqs.append({f: conc_value(k, f, int(model.get("req.%s.words" % f, 1))) for f, k in kinds.items()})
    else:
        for i, st in enumerate(steps):
            kinds = {}
            for f in st:
                name = ("kind%d.%s" % (i, f)) if "steps" in params else "kind.%s" % f
                kinds[f] = kinds_tab[f][int(model.get(name, 0))]
            if route == "cli" and "private" not in kinds:
                kinds["private"] = "false"
            tag = str(i) if "steps" in params else ""
            req = {}
            for f, k in kinds.items():
                words = int(model.get("req%s.%s.words" % (tag, f), 1))
                v = conc_value(k, f, words, tag)
                if k == "str" and int(model.get("req%s.%s.nonempty" % (tag, f), 1)) == 0:
                    v = ""
                elif k == "str" and f in ew.TOP and words == 0:
                    v = "   "
                req[f] = v
            reqs.append(req)
    mods = cr.real_torrentfile()
    import io
    import contextlib
    step_bad = []
    for req in reqs:
        raw_prev = refconc.raw_info_bytes(open(mpath, "rb").read())
        try:
            with contextlib.redirect_stdout(io.StringIO()):
                if route == "lib":
                    mods["torrentfile.edit"].edit_torrent(mpath, dict(req))
                else:
                    ns = types.SimpleNamespace(metafile=mpath, url_list=req.get("url-list"), httpseeds=req.get("httpseeds"),
                                               announce=req.get("announce"), source=req.get("source"),
                                               private=req.get("private", False), comment=req.get("comment"))
                    mods["torrentfile.commands"].edit(ns)
        except Exception as ex:  # noqa: BLE001
            if any(isinstance(v, str) and v.strip() == "" and v != "" for v in req.values()):
                return []
            return ["C07.no-exception: %s: %s" % (type(ex).__name__, ex)]
        named_info = [f for f, v in req.items() if f in ew.INFO and not (v is None or (f == "private" and v is False))]
        if "steps" in params and not named_info and refconc.raw_info_bytes(open(mpath, "rb").read()) != raw_prev:
            step_bad.append("C07.hist.step-info-hash-unchanged")
    after = pyben.load(mpath)
    bad = ["C07." + b for b in conc_check(before, after, reqs, route == "cli")]
    return bad + step_bad


def canaries(tier):
    return [
        ("edit: web seeds given as a string land in httpseeds", {"edit": [(
            "        if isinstance(val, str):\n            meta[\"url-list\"] = val.split()", "        if isinstance(val, str):\n            meta[\"httpseeds\"] = val.split()")]},
         ["lib.v1.url-list+*", "lib.v1.announce+url-list"]),
        ("filter_empty: cleared field stays in the request", {"edit": [(
            "                del info[key]\n            del args[key]", "                del info[key]")]},
         ["lib.v1.comment+source", "lib.v1.announce+comment"]),
        ("commands.edit: tracker list passed as web seeds", {"commands": [(
            "        \"url-list\": args.url_list,\n        \"httpseeds\": args.httpseeds,\n        \"announce\": args.announce,",
            "        \"url-list\": args.announce,\n        \"httpseeds\": args.httpseeds,\n        \"announce\": args.url_list,")]},
         ["cli.v3.announce+url-list", "cli.v1.all"]),
        ("edit: comment also refreshes creation date", {"edit": [(
            "        info[\"comment\"] = args[\"comment\"]", "        info[\"comment\"] = args[\"comment\"]\n        meta[\"creation date\"] = 0")]},
         ["lib.v1.comment+*", "hist2.comment"]),
    ]


if __name__ == "__main__":
    from harness import common
    raise SystemExit(common.main("harness.c07"))
