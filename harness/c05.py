"""C05: recheck reports exactly 100% for intact content of any well-formed metafile."""
from harness import recheck as rk
from harness.recheck import job_recheck  # noqa: F401  (job entry point)

PROPERTY = "C05"
MODULES = rk.MODULES + ["torrent"]
ASSUMPTIONS = [
    "A-hash model (injective sha1/sha256): a 100% verdict needs no assumption on contents",
    "metafile = decoded dictionary from an independent reference encoder (BEP 3 / BEP 52) or from torrentfile's own "
    "creators executed symbolically on the same path; pyben decode/encode is pass-through (A-pyben)",
    "the float percentage is treated as the exact rational matched/consumed*100; the IEEE gap is closed by lemma L-pct "
    "(RN(RN(m/c)*100) == 100.0 <=> m == c), discharged bit-precisely by z3 (QF_FP) for c < 2^w",
    "AFS: regular files, no short reads, no symlinks; progress bars and logging stubbed",
]
WITNESSES = ["empty file", "file ends on piece boundary", "file one byte past boundary"]


def BOUNDS(tier):
    q = tier == "quick"
    return {"versions": "v1, v2, hybrid (hybrid with and without trailing padding entry)",
            "shapes": "single, flat2, nested3, selfname, selfdir (an entry named like the torrent inside the root)" + ("" if q else ", order2, nested4"),
            "sizes": "each in [0, K*P], K=2 (3 for <= 2 files), total > 0", "piece_length": "{16, 32} KiB",
            "content path": "payload root and its parent", "metafile source": "reference encoder; TorrentFile/TorrentAssembler"
            + ("" if q else "; TorrentFileV2/TorrentFileHybrid"),
            "L-pct width": "w=%d" % (12 if q else 24),
            "outside": "more files/pieces, other piece lengths, metafiles with keys the reference encoder does not emit"}


TNAMES = ["100% done", "My%20Album", "%s", "{name}", "a[1]*", "name.torrent", " lead and trail ", "é 中"]


def jobs(tier):
    q = tier == "quick"
    out = []
    shapes = [("single", 3), ("flat2", 3), ("nested3", 2)] + ([] if q else [("order2", 3), ("nested4", 2)])
    for version in (1, 2, 3):
        for shape, K in shapes:
            n = len(rk.SHAPES[shape])
            for P in ((16384,) if (q and shape == "nested3") else (16384, 32768)):
                for cpath in ("root", "parent"):
                    if cpath == "parent" and P != 16384:
                        continue
                    base = dict(prop="C05", version=version, shape=shape, P=P, K=K, dmg=["intact"] * n, cpath=cpath)
                    out.append(("v%d.%s.P%d.%s.ref" % (version, shape, P, cpath), "job_recheck", dict(base, source="ref")))
                    if version == 3 and shape != "single":
                        out.append(("v3.%s.P%d.%s.ref-trailingpad" % (shape, P, cpath), "job_recheck",
                                    dict(base, source="ref", trailing_pad=True)))
                    if cpath == "root":
                        out.append(("v%d.%s.P%d.own" % (version, shape, P), "job_recheck", dict(base, source="own")))
                        if not q and version > 1:
                            out.append(("v%d.%s.P%d.own-class" % (version, shape, P), "job_recheck", dict(base, source="ownc")))
    for version in (1, 2, 3):
        for shape in ("selfname", "selfdir"):
            for cpath in ("root", "parent"):
                out.append(("v%d.%s.P16384.%s.ref" % (version, shape, cpath), "job_recheck",
                            dict(prop="C05", version=version, shape=shape, P=16384, K=2, dmg=["intact", "intact"], cpath=cpath, source="ref")))
    from harness import creators as _cr
    for shp in _cr.scheme_shapes(["flat2", "nested3"], tier):
        n = len(rk.SHAPES[shp])
        for version in (1, 2, 3):
            for source in ("ref", "own"):
                out.append(("v%d.%s.P16384.parent.%s" % (version, shp, source), "job_recheck",
                            dict(prop="C05", version=version, shape=shp, P=16384, K=1, dmg=["intact"] * n, cpath="parent", source=source)))
    for cpath in ("root", "parent"):
        out.append(("v2.single.P16384.%s.ref-nolength" % cpath, "job_recheck",
                    dict(prop="C05", version=2, shape="single", P=16384, K=3, dmg=["intact"], cpath=cpath, source="ref",
                         v2_single_length=False)))
    for source in ("ref", "own"):       # piece-aligned v1 metafiles (padding entries between the files)
        for shape, tp in (("flat2", False), ("nested3", True)):
            out.append(("v1.%s.P16384.aligned.%s%s" % (shape, source, ".trailing-pad" if tp else ""), "job_recheck",
                        dict(prop="C05", version=1, shape=shape, P=16384, K=2 if shape == "flat2" else 1, dmg=["intact"] * len(rk.SHAPES[shape]),
                             source=source, aligned=True, trailing_pad=tp and source == "ref")))
    for dmg in [['intact'], ['intact', 'intact']]:          # the largest piece length the tool accepts (v1 reads a piece in one go)
        shape = "single" if len(dmg) == 1 else "flat2"
        out.append(("v1.%s.P33554432.%s" % (shape, "-".join(k[0] for k in dmg)), "job_recheck",
                    dict(prop="C05", version=1, shape=shape, P=2 ** 25, K=1, dmg=dmg, source="ref")))
    for version in (1, 2, 3):       # identical copies of one file in the tree
        out.append(("v%d.flat2.P16384.identical-files" % version, "job_recheck",
                    dict(prop="C05", version=version, shape="flat2", P=16384, K=2, dmg=["intact", "intact"], source="ref", dup=True)))
    for version in (1, 2, 3):       # legal names that contain '..'
        out.append(("v%d.nested3~dotdot.P16384.intact" % version, "job_recheck",
                    dict(prop="C05", version=version, shape="nested3~dotdot", P=16384, K=1, dmg=["intact"] * 3, source="ref")))
    for source in ("ref", "own"):       # piece-aligned v1, two padding entries of the same length (equal names .pad/N)
        out.append(("v1.nested3.P16384.aligned.%s.equal-gaps" % source, "job_recheck",
                    dict(prop="C05", version=1, shape="nested3", P=16384, K=2, dmg=["intact", "intact", "intact"], source=source, aligned=True,
                         pinned={"s0": 16384 + 100, "s1": 100, "s2": 16384 + 7})))
    out.extend(rk.matrix_rows(tier, "C05"))
    for cpath in ("root", "parent"):     # a v1 file list that is not grouped by directory (as other tools write them)
        out.append(("v1.ungrouped3.P16384.%s.ref" % cpath, "job_recheck",
                    dict(prop="C05", version=1, shape="ungrouped3", P=16384, K=1, dmg=["intact"] * 3, cpath=cpath, source="ref")))
    # torrent names that are special to string formatting, globbing or paths
    for i, tn in enumerate(TNAMES):
        for version in ((1, 2, 3) if not q else (1 + i % 3,)):
            for cpath in ("root", "parent"):
                out.append(("v%d.flat2.P16384.%s.tname%d" % (version, cpath, i), "job_recheck",
                            dict(prop="C05", version=version, shape="flat2", P=16384, K=1, dmg=["intact", "intact"], cpath=cpath, source="ref", tname=tn)))
    if q:
        for version in (1, 2, 3):
            for cpath in ("root", "parent"):
                out.append(("v%d.order2.P16384.%s.own" % (version, cpath), "job_recheck",
                            dict(prop="C05", version=version, shape="order2", P=16384, K=2, dmg=["intact", "intact"], cpath=cpath, source="own")))
    return out


def validate(tier, workdir, seed):
    return rk.validate("C05", tier, workdir, seed)


def replay(params, model, notes, workdir, seed):
    return rk.conc_recheck("C05", params, model, workdir, seed)


def extra(tier, workdir, seed):
    from harness import lemmas
    return {"jobs": [lemmas.lpct_job(12 if tier == "quick" else 24)]}


def post(results, tier):
    """The float expression that produced each judged result gives exactly 100.0 (per expression shape, QF_FP)."""
    from harness import lemmas

    def model_of(params, leaves, rels):
        # intact content: every leaf is the payload size; put it all into the first file
        if not leaves or any(v != leaves[0] for v in leaves):
            return None
        n = len(rk.SHAPES[params["shape"]])
        return dict({"s%d" % i: 0 for i in range(n)}, s0=leaves[0])
    return lemmas.shape_jobs(results, 12 if tier == "quick" else 24, "C05", model_of)


def canaries(tier):
    return [
        ("FeedChecker: leftover partial piece dropped at the end", {"recheck": [(
            "        if len(partial) > 0:\n            yield partial\n", "")]},
         ["v1.flat2.*", "v1.nested3.*"]),
        ("HashChecker: piece layer looked up for size >= piece length", {"recheck": [(
            "            if self.length > self.piece_length:\n                self.pieces = self.piece_layers[self.root_hash]",
            "            if self.length >= self.piece_length:\n                self.pieces = self.piece_layers[self.root_hash]")]},
         ["v2.flat2.*", "v3.single.*"]),
        ("Checker.find_root: parent directory not searched", {"recheck": [(
            "        if self.name in os.listdir(root):\n            return root / self.name",
            "        if self.name in os.listdir(root):\n            return root")]},
         ["v1.flat2.*parent*", "v2.single.*parent*"]),
    ]


if __name__ == "__main__":
    from harness import common
    raise SystemExit(common.main("harness.c05"))
