"""C04: recheck never reports 100% for damaged or incomplete content."""
import itertools

from harness import recheck as rk
from harness.recheck import job_recheck  # noqa: F401

PROPERTY = "C04"
MODULES = rk.MODULES
ASSUMPTIONS = [
    "A-hash: no SHA-1/SHA-256 collision; A-generic: described bytes are not all zero and distinct descriptions denote "
    "distinct bytes (exactly the exclusion the property's quantifier makes) - needed because this is a 'must differ' verdict",
    "metafile = decoded dictionary from an independent reference encoder, or torrentfile's own creator (A-pyben)",
    "percentage treated as exact rational; IEEE gap closed by lemma L-pct (see C05)",
    "AFS: regular files, no short reads; progress bars and logging stubbed",
]
WITNESSES = ["empty file", "file ends on piece boundary", "file one byte past boundary"]


def BOUNDS(tier):
    q = tier == "quick"
    return {"versions": "v1, v2, hybrid", "shapes": "single, flat2, nested3",
            "damage": ("one damaged file: flip at any offset / truncation to any shorter length / removal" if q else
                       "any assignment of {intact, flip, trunc, missing} to up to 3 files with at least one damaged"),
            "sizes": "each in [0, K*P], K=2 (3 for <= 2 files)", "piece_length": "{16, 32} KiB",
            "outside": "more files/pieces, other piece lengths; files longer on disk than described"}


def damage_sets(n, tier):
    if tier == "quick":
        for i in range(n):
            for k in ("trunc", "missing", "flip"):
                d = ["intact"] * n
                d[i] = k
                yield d
    else:
        for combo in itertools.product(rk.KINDS, repeat=n):
            if any(k != "intact" for k in combo):
                yield list(combo)


def jobs(tier):
    q = tier == "quick"
    out = []
    for version in (1, 2, 3):
        for shape, K in [("single", 3), ("flat2", 3 if q else 2), ("nested3", 2)]:
            n = len(rk.SHAPES[shape])
            for P in ((16384,) if shape != "single" else (16384, 32768)):
                for dmg in damage_sets(n, tier):
                    if shape == "single" and dmg[0] == "missing":
                        continue    # the content path itself would not exist: recheck refuses (FileNotFoundError)
                    label = "v%d.%s.P%d.%s" % (version, shape, P, "-".join(k[0] for k in dmg))
                    out.append((label + ".ref", "job_recheck", dict(prop="C04", version=version, shape=shape, P=P, K=K,
                                                                   dmg=dmg, source="ref")))
                    if shape == "flat2" and q:
                        out.append((label + ".own", "job_recheck", dict(prop="C04", version=version, shape=shape, P=P, K=2,
                                                                       dmg=dmg, source="own")))
    for version in (1, 2, 3):
        for shape in ("selfname", "selfdir"):
            for dmg in (["intact", "flip"], ["missing", "intact"], ["trunc", "intact"]):
                out.append(("v%d.%s.P16384.%s.root" % (version, shape, "-".join(k[0] for k in dmg)), "job_recheck",
                            dict(prop="C04", version=version, shape=shape, P=16384, K=1, dmg=dmg, source="ref", cpath="root")))
    for dmg in (["intact", "flip", "intact"], ["missing", "intact", "intact"], ["intact", "intact", "trunc"]):
        out.append(("v1.ungrouped3.P16384.%s.ref" % "-".join(k[0] for k in dmg), "job_recheck",
                    dict(prop="C04", version=1, shape="ungrouped3", P=16384, K=1, dmg=dmg, source="ref")))
    for source in ("ref", "own"):       # piece-aligned v1 metafiles (padding entries between the files)
        for dmg in (["intact", "flip"], ["flip", "intact"], ["trunc", "intact"], ["intact", "missing"]):
            out.append(("v1.flat2.P16384.aligned.%s.%s" % (source, "-".join(k[0] for k in dmg)), "job_recheck",
                        dict(prop="C04", version=1, shape="flat2", P=16384, K=2, dmg=dmg, source=source, aligned=True)))
        out.append(("v1.nested3.P16384.aligned.%s.i-i-f" % source, "job_recheck",
                    dict(prop="C04", version=1, shape="nested3", P=16384, K=1, dmg=["intact", "intact", "flip"], source=source, aligned=True)))
    for dmg in [['flip'], ['intact', 'trunc']]:          # the largest piece length the tool accepts (v1 reads a piece in one go)
        shape = "single" if len(dmg) == 1 else "flat2"
        out.append(("v1.%s.P33554432.%s" % (shape, "-".join(k[0] for k in dmg)), "job_recheck",
                    dict(prop="C04", version=1, shape=shape, P=2 ** 25, K=1, dmg=dmg, source="ref")))
    for version in (1, 2, 3):       # identical copies of one file in the tree, damage in one of them
        for dmg in (["intact", "flip"], ["flip", "intact"], ["intact", "intact", "flip"]):
            shape = "flat2" if len(dmg) == 2 else "nested3"
            out.append(("v%d.%s.P16384.identical-files.%s" % (version, shape, "-".join(k[0] for k in dmg)), "job_recheck",
                        dict(prop="C04", version=version, shape=shape, P=16384, K=2 if shape == "flat2" else 1, dmg=dmg, source="ref", dup=True)))
    for version in (2, 3, 1):       # sibling sub-directories, the damage below the later one
        for shape, dmg in (("nested4", ["intact", "intact", "flip", "intact"]), ("nested4", ["intact", "intact", "missing", "intact"]),
                           ("samename2", ["intact", "trunc"]), ("samename2", ["intact", "flip"])):
            out.append(("v%d.%s.P16384.%s.siblings" % (version, shape, "-".join(k[0] for k in dmg)), "job_recheck",
                        dict(prop="C04", version=version, shape=shape, P=16384, K=1, dmg=dmg, source="ref")))
    for version in (1, 2, 3):       # legal names that contain '..'
        for dmg in (["flip", "intact", "intact"], ["intact", "missing", "intact"], ["intact", "intact", "trunc"]):
            out.append(("v%d.nested3~dotdot.P16384.%s" % (version, "-".join(k[0] for k in dmg)), "job_recheck",
                        dict(prop="C04", version=version, shape="nested3~dotdot", P=16384, K=1, dmg=dmg, source="ref")))
    for source in ("ref", "own"):       # piece-aligned v1, two padding entries of the same length (equal names .pad/N)
        out.append(("v1.nested3.P16384.aligned.%s.equal-gaps" % source, "job_recheck",
                    dict(prop="C04", version=1, shape="nested3", P=16384, K=2, dmg=["intact", "intact", "flip"], source=source, aligned=True,
                         pinned={"s0": 16384 + 100, "s1": 100, "s2": 16384 + 7})))
    out.extend(rk.matrix_rows(tier, "C04"))
    # a long-lived Checker: verified while intact, content damaged afterwards, verified again on the same object
    for version in (1, 2, 3):
        for kind in ("flip", "trunc"):
            out.append(("v%d.flat2.P16384.again-after-%s" % (version, kind), "job_again", dict(version=version, shape="flat2", P=16384, K=2, kind=kind)))
    return out


def job_again(E, version, shape, P, K, kind, _mutants=None):
    from symx.afs import AFS
    from symx.loader import World, BenTok
    rels = rk.SHAPES[shape]
    fs = AFS(order="reversed")
    sizes = {r: E.int("s%d" % i, 0, K * P) for i, r in enumerate(rels)}
    E.note("shape", shape)
    total = 0
    for s_ in sizes.values():
        total = total + s_
    E.assume(total > 0)
    rk.apply_damage(E, fs, shape, sizes, ["intact"] * len(rels))
    meta = rk.ref_meta(E, version, shape, sizes, P, False, True)
    fs.add_token("/t/m.torrent", BenTok(meta))
    w = World(fs, mutants=_mutants)
    try:
        c = w.mod("recheck").Checker("/t/m.torrent", "/data/name")
        first = c.results()
        dmg = ["intact"] * len(rels)
        dmg[-1] = kind
        rk.apply_damage(E, fs, shape, sizes, dmg)
        second = c.results()
    except Exception as ex:  # noqa: BLE001
        E.fail("C04.no-exception", "%s: %s" % (type(ex).__name__, ex))
        return
    E.check(second < 100, "C04.again.result<100", "content damaged (%s) after a first verification: the same Checker still reports %r (first: %r)" % (kind, second, first))


def validate(tier, workdir, seed):
    return rk.validate("C04", tier, workdir, seed)


def replay(params, model, notes, workdir, seed):
    if "kind" in params:
        import io
        import contextlib
        import os
        from harness import creators as cr
        import refconc
        p2 = dict(params, dmg=["intact"] * len(rk.SHAPES[params["shape"]]), source="ref")
        mpath, cpath, data, disk, sizes = rk.conc_world(p2, model, workdir, seed)
        mods = cr.real_torrentfile()
        last = rk.SHAPES[params["shape"]][-1]
        i = len(rk.SHAPES[params["shape"]]) - 1
        try:
            with contextlib.redirect_stdout(io.StringIO()):
                c = mods["torrentfile.recheck"].Checker(mpath, cpath)
                c.results()
                d = data[last]
                d = refconc.flip(d, int(model["o%d" % i])) if params["kind"] == "flip" else d[:int(model["t%d" % i])]
                refconc.write_file(os.path.join(os.path.dirname(cpath), last), d)
                second = c.results()
        except Exception as ex:  # noqa: BLE001
            return ["C04.no-exception: %s: %s" % (type(ex).__name__, ex)]
        return [] if second < 100 else ["C04.again.result<100 (got %r)" % (second,)]
    return rk.conc_recheck("C04", params, model, workdir, seed)


def post(results, tier):
    """Exact arithmetic said 'below 100': the float expression the code evaluates is below 100.0 as well."""
    from harness import lemmas
    return lemmas.shape_jobs(results, 12 if tier == "quick" else 24, "C04")


def canaries(tier):
    return [
        ("HashChecker: padder compares equal (pad digest taken from the metafile)", {"recheck": [(
            "                self.hasher = self.Padder(self.length, self.piece_length)\n                piece, size = self.advance()\n                layer = next(self.hasher)",
            "                self.hasher = self.Padder(self.length, self.piece_length)\n                piece, size = self.advance()\n                layer = piece")]},
         ["v2.flat2.*t*", "v2.single.*t*"]),
        ("FeedChecker: padding for a missing file not counted", {"recheck": [(
            "                length = self.fileinfo[i][\"length\"]\n                for pad in self._gen_padding(partial, length):",
            "                length = 0\n                for pad in self._gen_padding(partial, length):")]},
         ["v1.flat2.*m*", "v1.nested3.*m*"]),
    ]


if __name__ == "__main__":
    from harness import common
    raise SystemExit(common.main("harness.c04"))
