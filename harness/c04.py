"""C04: recheck never reports 100% for damaged or incomplete content."""
import itertools

from harness import recheck as rk
from harness.recheck import job_recheck  # noqa: F401

PROPERTY = "C04"
MODULES = rk.MODULES
ASSUMPTIONS = [
    "A-hash: no SHA-1/SHA-256 collision; A-generic: described bytes are not all zero and distinct descriptions denote "
    "distinct bytes (exactly the exclusion the property's quantifier makes) - needed because this is a 'must differ' verdict",
    "metafile = decoded dictionary from an independent reference encoder, or torrentfile's own creator (A-pyben)",
    "percentage treated as exact rational; IEEE gap closed by lemma L-pct (see C05)",
    "AFS: regular files, no short reads; progress bars and logging stubbed",
]
WITNESSES = ["empty file", "file ends on piece boundary", "file one byte past boundary"]


def BOUNDS(tier):
    q = tier == "quick"
    return {"versions": "v1, v2, hybrid", "shapes": "single, flat2, nested3",
            "damage": ("one damaged file: flip at any offset / truncation to any shorter length / removal" if q else
                       "any assignment of {intact, flip, trunc, missing} to up to 3 files with at least one damaged"),
            "sizes": "each in [0, K*P], K=2 (3 for <= 2 files)", "piece_length": "{16, 32} KiB",
            "outside": "more files/pieces, other piece lengths; files longer on disk than described"}


def damage_sets(n, tier):
    if tier == "quick":
        for i in range(n):
            for k in ("trunc", "missing", "flip"):
                d = ["intact"] * n
                d[i] = k
                yield d
    else:
        for combo in itertools.product(rk.KINDS, repeat=n):
            if any(k != "intact" for k in combo):
                yield list(combo)


def jobs(tier):
    q = tier == "quick"
    out = []
    for version in (1, 2, 3):
        for shape, K in [("single", 3), ("flat2", 3 if q else 2), ("nested3", 2)]:
            n = len(rk.SHAPES[shape])
            for P in ((16384,) if shape != "single" else (16384, 32768)):
                for dmg in damage_sets(n, tier):
                    if shape == "single" and dmg[0] == "missing":
                        continue    # the content path itself would not exist: recheck refuses (FileNotFoundError)
                    label = "v%d.%s.P%d.%s" % (version, shape, P, "-".join(k[0] for k in dmg))
                    out.append((label + ".ref", "job_recheck", dict(prop="C04", version=version, shape=shape, P=P, K=K,
                                                                   dmg=dmg, source="ref")))
                    if shape == "flat2" and q:
                        out.append((label + ".own", "job_recheck", dict(prop="C04", version=version, shape=shape, P=P, K=2,
                                                                       dmg=dmg, source="own")))
    for version in (1, 2, 3):
        for shape in ("selfname", "selfdir"):
            for dmg in (["intact", "flip"], ["missing", "intact"], ["trunc", "intact"]):
                out.append(("v%d.%s.P16384.%s.root" % (version, shape, "-".join(k[0] for k in dmg)), "job_recheck",
                            dict(prop="C04", version=version, shape=shape, P=16384, K=1, dmg=dmg, source="ref", cpath="root")))
    return out


def validate(tier, workdir, seed):
    return rk.validate("C04", tier, workdir, seed)


def replay(params, model, notes, workdir, seed):
    return rk.conc_recheck("C04", params, model, workdir, seed)


def canaries(tier):
    return [
        ("HashChecker: padder compares equal (pad digest taken from the metafile)", {"recheck": [(
            "                self.hasher = self.Padder(self.length, self.piece_length)\n                piece, size = self.advance()\n                layer = next(self.hasher)",
            "                self.hasher = self.Padder(self.length, self.piece_length)\n                piece, size = self.advance()\n                layer = piece")]},
         ["v2.flat2.*t*", "v2.single.*t*"]),
        ("FeedChecker: padding for a missing file not counted", {"recheck": [(
            "                length = self.fileinfo[i][\"length\"]\n                for pad in self._gen_padding(partial, length):",
            "                length = 0\n                for pad in self._gen_padding(partial, length):")]},
         ["v1.flat2.*m*", "v1.nested3.*m*"]),
    ]


if __name__ == "__main__":
    from harness import common
    raise SystemExit(common.main("harness.c04"))
