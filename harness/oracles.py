"""Symbolic oracles for created metafiles (run under the engine)."""
from symx.core import tb, conj, disj
from symx.abuf import ABuf
from symx import refs

from harness import creators as cr
from harness.creators import SHAPES, BLOCK


def content_of(shape, rel, sizes, names=None):
    return ABuf.file(cr.fid_of(shape, rel, names), sizes[rel])


def v2_reference(E, content, P, tag):
    """Both reference formulations, proved equal on this path (guards the oracle)."""
    r1, l1, n1 = refs.v2_layerwise(content, P)
    r2, l2, n2 = refs.v2_wholetree(content, P)
    same = (r1 == r2) if r1 is not None else (r2 is None)
    same = same and ((l1 == l2) if l1 is not None else (l2 is None)) and n1 == n2
    E.check(same, "ORACLE." + tag + ".two-formulations-agree")
    return r1, l1, n1


def tree_leaves(E, tree, single, tag):
    """{'name/...': leaf dict} in traversal (insertion) order."""
    out = {}

    def walk(t, pre):
        for k, v in t.items():
            if isinstance(v, dict) and "" in v:
                E.check(len(v) == 1, tag + ".tree.leaf-shape", "leaf %r has extra keys" % k)
                out["/".join(pre + [k])] = v[""]
            elif isinstance(v, dict):
                walk(v, pre + [k])
            else:
                E.fail(tag + ".tree.shape", "entry %r is not a dictionary" % k)
    walk(tree, [] if single else ["name"])
    return out


def oracle_v2(E, meta, sizes, P, shape, tag="C02", names=None):
    rels = names or SHAPES[shape]
    info = meta["info"]
    single = shape == "single"
    E.check(info.get("meta version") == 2, tag + ".meta-version")
    E.check(info.get("piece length") == P, tag + ".piece-length")
    tree = info.get("file tree")
    if not E.check(isinstance(tree, dict), tag + ".tree.present"):
        return {}
    leaves = tree_leaves(E, tree, single, tag)
    E.check(sorted(leaves) == sorted(rels), tag + ".tree.paths", "tree has %r, disk has %r" % (sorted(leaves), sorted(rels)))
    layers = meta.get("piece layers")
    if not E.check(isinstance(layers, dict), tag + ".layers.present"):
        return leaves
    expected_layers = 0
    seen_roots = []
    for rel in rels:
        leaf = leaves.get(rel)
        if leaf is None:
            continue
        s = sizes[rel]
        E.check(leaf.get("length") == s, tag + ".tree.length", rel)
        if tb(s == 0):
            E.check("pieces root" not in leaf, tag + ".empty-no-root", rel)
            continue
        root, layer, npieces = v2_reference(E, content_of(shape, rel, sizes, names), P, tag)
        E.check(leaf.get("pieces root") == root, tag + ".root", "pieces root of %r differs from BEP 52 reference" % rel)
        if tb(s > P):
            if not any(r0 == root for r0 in seen_roots):      # identical files share one entry (same pieces root)
                seen_roots.append(root)
                expected_layers += 1
            got = None
            for k, v in layers.items():
                if k == root:
                    got = v
            if E.check(got is not None, tag + ".layers.has-entry", "no piece layer for %r (size > piece length)" % rel):
                E.check(got == layer, tag + ".layers.value", "piece layer of %r differs from reference" % rel)
        else:
            E.check(not any(k == root for k in layers), tag + ".layers.no-entry-small", "file %r <= piece length has a layer" % rel)
    E.check(len(layers) == expected_layers, tag + ".layers.count", "%d entries, expected %d" % (len(layers), expected_layers))
    return leaves


def oracle_hybrid_v1(E, meta, sizes, P, shape, tag="C03", names=None):
    """The v1 view of a hybrid metafile describes the same payload as its tree."""
    rels = names or SHAPES[shape]
    info = meta["info"]
    single = shape == "single"
    tree = info.get("file tree")
    if not isinstance(tree, dict):
        E.fail(tag + ".tree.present")
        return
    leaves = tree_leaves(E, tree, single, tag)
    if single:
        s = sizes[rels[0]]
        E.check("files" not in info, tag + ".single.no-files")
        E.check(info.get("length") == s, tag + ".single.length")
        exp = refs.v1_pieces(content_of(shape, rels[0], sizes, names), P)
        E.check(info.get("pieces") == exp, tag + ".single.pieces",
                "v1 piece string is not the hashing of the file alone with its declared length")
        return
    files = info.get("files")
    if not E.check(isinstance(files, list), tag + ".files.present"):
        return
    stream = ABuf.of([])
    prefix = 0
    listed = []
    for f in files:
        n = f["length"]
        if "attr" in f and f["attr"] == "p":
            stream.extend(ABuf(n))
        else:
            E.check("attr" not in f or "p" not in f["attr"], tag + ".files.attr")
            rel = "/".join(["name"] + list(f["path"]))
            listed.append(rel)
            E.check(prefix % P == 0, tag + ".alignment", "%r starts at offset not on a piece boundary" % rel)
            if rel in rels:
                E.check(n == sizes[rel], tag + ".files.length", rel)
                stream.extend(content_of(shape, rel, sizes, names))
            else:
                E.fail(tag + ".files.unknown", rel)
        prefix = prefix + n
    E.check(listed == list(leaves), tag + ".files.same-order-as-tree", "files %r vs tree %r" % (listed, list(leaves)))
    for rel, leaf in leaves.items():
        if rel in rels:
            E.check(leaf.get("length") == sizes[rel], tag + ".tree.length", rel)
    exp = refs.v1_pieces(stream, P)
    E.check(info.get("pieces") == exp, tag + ".pieces", "v1 piece string is not the hashing of the listed stream")
    npieces = info["pieces"].size() // 20 if isinstance(info.get("pieces"), ABuf) else None
    if npieces is not None:
        E.check(conj(npieces * P >= prefix, (npieces - 1) * P < prefix) if tb(prefix > 0) else npieces == 0,
                tag + ".piece-count", "pieces=%r listed=%r" % (npieces, prefix))


def oracle_aligned_v1(E, info, sizes, P, shape, tag="C15", names=None):
    rels = names or SHAPES[shape]
    E.check(info.get("piece length") == P, tag + ".piece-length")
    if shape == "single":
        s = sizes[rels[0]]
        E.check("files" not in info, tag + ".single.no-files")
        E.check(info.get("length") == s, tag + ".single.length")
        exp = refs.v1_pieces(content_of(shape, rels[0], sizes, names), P)
        E.check(info.get("pieces") == exp, tag + ".single.pieces", "single file must be hashed as the file alone")
        return
    files = info.get("files")
    if not E.check(isinstance(files, list), tag + ".files.present"):
        return
    stream = ABuf.of([])
    prefix = 0
    seen = []
    prev_payload = False
    for f in files:
        n = f["length"]
        if "attr" in f:
            E.check(f["attr"] == "p", tag + ".pad.attr")
            E.check(prev_payload, tag + ".pad.follows-payload", "padding entry not directly after a payload file")
            gap = (-prefix) % P
            E.check(n == gap, tag + ".pad.length", "padding %r but gap to next boundary is %r" % (n, gap))
            stream.extend(ABuf(n))
            prev_payload = False
        else:
            rel = "/".join(["name"] + list(f["path"]))
            E.check(prefix % P == 0, tag + ".alignment", "%r does not start on a piece boundary" % rel)
            if E.check(rel in rels and rel not in seen, tag + ".files.real-once", rel):
                seen.append(rel)
                E.check(n == sizes[rel], tag + ".files.length", rel)
                stream.extend(content_of(shape, rel, sizes, names))
            prev_payload = True
        prefix = prefix + n
    E.check(sorted(seen) == sorted(rels), tag + ".files.all")
    exp = refs.v1_pieces(stream, P)
    E.check(info.get("pieces") == exp, tag + ".pieces", "piece string is not the hashing of the listed stream (padding = zeros)")
    if isinstance(info.get("pieces"), ABuf):
        npieces = info["pieces"].size() // 20
        E.check(conj(npieces * P >= prefix, (npieces - 1) * P < prefix) if tb(prefix > 0) else npieces == 0,
                tag + ".piece-count", "listed lengths do not account for the pieces recorded")
