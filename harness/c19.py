"""C19: rebuild never writes outside the destination, whatever the metafile says."""
import os
import posixpath

from symx.core import tb, disj
from symx.abuf import ABuf
from symx.afs import AFS
from symx.loader import World, BenTok
from symx import refs

from harness import rebuildw as rw
from harness import creators as cr
import refconc

PROPERTY = "C19"
MODULES = rw.MODULES
ASSUMPTIONS = [
    "hostile names are the finite family the property itself lists ('..', '.', '', '/abs', 'a/../../b', 'x/y', '..' chains "
    "of depth 1-4) placed as the torrent name, as first / middle component or embedded in the last component's "
    "directory part; what the solver contributes is that the verdict holds on every size-dependent path to the copy "
    "(piece boundaries, multi-file pieces, decoys)",
    "matching candidate files (right name, right size, right bytes) are present in the search directory so that the copy "
    "is actually attempted; the destination is /jail/dest with sibling directories that must stay untouched",
    "judged on the AFS mutation log and final state: every mkdir / copy target must lie inside the destination",
    "POSIX path resolution of the AFS ('..' resolved against existing directories); no symlinks",
]
WITNESSES = ["a copy was attempted", "hostile component would leave the destination"]

HOSTILE_NAMES = ["..", ".", "", "/abs", "a/../../b", "x/y", "../..", "../../..", "../../../..",
                 "../dest-old", "../destX/y", "/jail/dest_abs",          # siblings whose name extends the destination's own
                 "../other/../dest/back", "n/../../other2/../dest/n",     # out and back in: the final path is inside
                 "~", "~/x", "~root", "~u"]                                # what a shell or expanduser would send elsewhere
HOSTILE_COMPS = ["..", ".", "", "/abs", "a/../../b", "x/y", "../../dest.bak",
                 "../../other/../dest", "../../dest/../other/../dest/name"]     # leave and come back: ends inside, passes through outside


def BOUNDS(tier):
    return {"versions": "v1 (single and multi file), v2, hybrid", "name": HOSTILE_NAMES, "path components": HOSTILE_COMPS,
            "positions": "torrent name; first component; middle component (each with a harmless file name last)",
            "destination spellings": "absolute; '.', '..', '../dest', '../..' relative to suitable working directories",
            "sizes": "each in [1, 2P] (v2/hybrid: the file on the hostile path may also be empty), P = 16 KiB; two payload files",
            "outside": "hostile strings beyond the listed family; symlinks inside the destination"}


def jobs(tier):
    out = []
    for version in (1, 2, 3):
        for i, nm in enumerate(HOSTILE_NAMES):
            out.append(("v%d.name.%d" % (version, i), "job", dict(version=version, name=nm, comps=None)))
        for i, c in enumerate(HOSTILE_COMPS):
            out.append(("v%d.first.%d" % (version, i), "job", dict(version=version, name="name", comps=[c, "f.bin"])))
            if tier != "quick" or i in (0, 3, 4, 7):
                out.append(("v%d.middle.%d" % (version, i), "job", dict(version=version, name="name", comps=["d", c, "f.bin"])))
    for i, nm in enumerate(HOSTILE_NAMES):
        out.append(("v1.single.name.%d" % i, "job", dict(version=1, name=nm, comps=None, single=True)))
    if tier != "quick":
        # hostile name AND hostile component together, every position, every destination spelling
        for version in (1, 2, 3):
            for i, nm in enumerate(HOSTILE_NAMES):
                for j, c in enumerate(HOSTILE_COMPS):
                    out.append(("v%d.name%d+first%d" % (version, i, j), "job", dict(version=version, name=nm, comps=[c, "f.bin"])))
                    if (i + j) % 3 == 0:
                        out.append(("v%d.name%d+last%d" % (version, i, j), "job", dict(version=version, name=nm, comps=["d", c])))
            for dspell, cwd in ((".", "/jail/dest"), ("..", "/jail/dest/sub"), ("../dest", "/jail/cwd"), ("../..", "/jail/dest/sub/deeper")):
                for j, c in enumerate(HOSTILE_COMPS):
                    out.append(("v%d.dest-%s.first%d" % (version, dspell.replace("/", "_"), j), "job",
                                dict(version=version, name="name", comps=[c, "f.bin"], dest=dspell, cwd=cwd)))
    # the destination itself spelled relatively ('.', '..', '../dest'): containment must not be judged on the spelling
    for version in (1, 2, 3):
        for dspell, cwd in ((".", "/jail/dest"), ("..", "/jail/dest/sub"), ("../dest", "/jail/cwd"), ("../..", "/jail/dest/sub/deeper")):
            for nm, comps in (("..", None), ("name", ["..", "..", "f.bin"]), ("../../x", None), ("~", None), ("~root", None), ("name", ["~", "f.bin"])):
                out.append(("v%d.dest-%s.%s" % (version, dspell.replace("/", "_"), (nm if comps is None else "comp").replace("/", "_")), "job",
                            dict(version=version, name=nm, comps=comps, dest=dspell, cwd=cwd)))
    for version in (1, 2, 3):
        out.append(("v%d.two-releases-same-destination" % version, "job_two_releases", dict(version=version, releases=2)))
    return out


def job_two_releases(E, version, releases=2, _mutants=None):
    """Two metafiles that assign the same path (release 1: name/a of n bytes, release 2: a longer name/a), rebuilt
    one after the other into one destination: nothing outside the destination - the search tree included - changes."""
    from harness import c14
    from harness import recheck as rk
    P = 16384
    fs = AFS(cwd="/jail/cwd", order="reversed")
    n1 = E.int("n1", 1, 2 * P)
    n2 = E.int("n2", 2, 3 * P)
    sb = E.int("sb", 1, P)
    E.assume(n2 > n1)
    E.note("shape", "flat2")
    fs.add("/jail/src/rel1/a", ("f", 0), n1)
    fs.add("/jail/src/rel2/a", ("g", 0), n2)
    fs.add("/jail/src/b", ("f", 1), sb)
    m1 = rk.ref_meta(E, version, "flat2", {"name/a": n1, "name/b": sb}, P, False, True)
    save = cr.fid_of
    try:
        cr.fid_of = lambda shape, rel, names=None: ("g", 0) if rel.endswith("/a") else ("f", 1)
        m2 = rk.ref_meta(E, version, "flat2", {"name/a": n2, "name/b": sb}, P, False, True)
    finally:
        cr.fid_of = save
    fs.add_token("/jail/t/one.torrent", BenTok(m1))
    fs.add_token("/jail/t/two.torrent", BenTok(m2))
    fs.mkdirs("/jail/dest")
    snap = fs.snapshot()
    w = World(fs, mutants=_mutants)
    for mf in ("/jail/t/one.torrent", "/jail/t/two.torrent"):
        try:
            w.mod("rebuild").Assembler([mf], ["/jail/src"], "/jail/dest").assemble_torrents()
        except Exception as ex:  # noqa: BLE001
            E.note("raised", "%s: %s" % (type(ex).__name__, ex))
    outside = [d for d in fs.diff(snap) if not (d[1] == "/jail/dest" or d[1].startswith("/jail/dest/"))]
    E.check(not outside, "C19.releases.nothing-outside-changes", "outside the destination: %r" % (outside[:4],))
    for k in WITNESSES:
        E.witnesses.setdefault(k, True)


def job(E, version, name, comps, single=False, dest="/jail/dest", cwd="/jail/cwd", _mutants=None):
    P = 16384
    fs = AFS(cwd=cwd, order="reversed")
    for d in ("/jail/dest", "/jail/sibling", "/abs", "/jail/src", "/jail/dest-old", "/jail/destX", "/jail/dest.bak", "/jail/cwd", cwd, "/x"):
        fs.mkdirs(d)
    fs.add("/jail/sibling/keep.bin", ("keep", 0), 9)
    s0 = E.int("s0", 0 if (version != 1 and not single) else 1, 2 * P)      # v2/hybrid: also an empty file on the hostile path
    s1 = E.int("s1", 1, 2 * P)
    # payload: file 0 carries the (possibly hostile) path, file 1 is harmless
    p0 = list(comps) if comps else ["f.bin"]
    p1 = ["g.bin"]
    c0, c1 = ABuf.file(("f", 0), s0), ABuf.file(("f", 1), s1)
    fname0 = p0[-1]
    if single:
        fname0 = posixpath.basename(name) or "x"
    fs.add("/jail/src/" + (fname0 if fname0 not in ("", ".", "..") else "x"), ("f", 0), s0)
    fs.add("/jail/src/sub/g.bin", ("f", 1), s1)
    info = {"name": name, "piece length": P}
    meta = {"info": info}
    if single:
        info["length"] = s0
        info["pieces"] = refs.v1_pieces(c0, P)
    else:
        if version in (1, 3):
            files = [{"length": s0, "path": p0}]
            stream = ABuf(c0)
            if version == 3 and tb(s0 % P != 0):
                pad = P - s0 % P
                files.append({"attr": "p", "length": pad, "path": [".pad", str(pad)]})
                stream.extend(ABuf(pad))
            files.append({"length": s1, "path": p1})
            stream.extend(c1)
            info["files"] = files
            info["pieces"] = refs.v1_pieces(stream, P)
        if version in (2, 3):
            info["meta version"] = 2
            tree = {}
            layers = {}
            for comps_, c, s in ((p0, c0, s0), (p1, c1, s1)):
                node = tree
                for k in comps_[:-1]:
                    node = node.setdefault(k, {})
                if tb(s == 0):
                    node[comps_[-1]] = {"": {"length": s}}
                    continue
                root, layer, _ = refs.v2_layerwise(c, P)
                node[comps_[-1]] = {"": {"length": s, "pieces root": root}}
                if tb(s > P):
                    layers[root] = layer
            info["file tree"] = tree
            meta["piece layers"] = layers
    fs.add_token("/jail/t/m.torrent", BenTok(meta))
    # an unrelated file already sits wherever the hostile path would land outside the destination
    land = posixpath.normpath(posixpath.join("/jail/dest", name, *(p0 if not single else [])))
    if not (land == "/jail/dest" or land.startswith("/jail/dest/")) and land not in fs.dirs and land not in fs.files and land != "/":
        fs.add(land, ("victim", 0), 3)
    snap = fs.snapshot()
    w = World(fs, mutants=_mutants)
    try:
        a = w.mod("rebuild").Assembler(["/jail/t/m.torrent"], ["/jail/src"], dest)
        a.assemble_torrents()
    except Exception as ex:  # noqa: BLE001
        # refusing a hostile metafile with an error is fine; what counts is what happened on disk before
        E.note("raised", "%s: %s" % (type(ex).__name__, ex))
    dest_spelled = dest
    dest = "/jail/dest"

    def inside(p):
        p = posixpath.normpath(p)
        return p == dest or p.startswith(dest + "/")
    for entry in fs.log:
        targets = [entry[-1]] if entry[0] in ("copy", "rename") else [entry[1]]
        for t in targets:
            E.check(inside(t), "C19.writes-inside-destination", "%s of %r leaves the destination %s (name=%r path=%r)" % (entry[0], t, dest, name, p0))
    outside = [d for d in fs.diff(snap) if not inside(d[1])]
    E.check(not outside, "C19.nothing-outside-changes", "outside the destination: %r (name=%r path=%r)" % (outside[:4], name, p0))
    if any(e[0] == "copy" for e in fs.log):
        E.witnesses["a copy was attempted"] = True
    jp = posixpath.normpath(posixpath.join(dest, name, *(p0 if not single else [])))
    if not inside(jp):
        E.witnesses["hostile component would leave the destination"] = True


def replay(params, model, notes, workdir, seed):
    import io
    import contextlib
    if "releases" in params:
        from harness import c14
        bad = c14._replay_releases(params, model, workdir, seed)
        return [b.replace("C14.releases.sources-untouched", "C19.releases.nothing-outside-changes") for b in bad]
    P = 16384
    version, name, comps, single = params["version"], params["name"], params.get("comps"), params.get("single", False)
    s0, s1 = int(model["s0"]), int(model["s1"])
    d0, d1 = refconc.content(("f", 0), s0, seed), refconc.content(("f", 1), s1, seed)
    jail = os.path.join(workdir, "jail")
    for d in ("dest", "sibling", "src", "cwd", "t", "dest-old", "destX", "dest.bak"):
        os.makedirs(os.path.join(jail, d))
    absdir = os.path.join(workdir, "abs")
    os.makedirs(absdir)
    refconc.write_file(os.path.join(jail, "sibling", "keep.bin"), b"k" * 9)
    p0 = list(comps) if comps else ["f.bin"]
    # absolute hostile components are re-rooted into the scratch area so that the replay cannot touch the real /abs
    fix = lambda c: (absdir if c == "/abs" else (os.path.join(jail, "dest_abs") if c == "/jail/dest_abs" else c))  # noqa: E731
    p0 = [fix(c) for c in p0]
    name_r = fix(name)
    fname0 = p0[-1]
    if single:
        fname0 = os.path.basename(name_r) or "x"
    refconc.write_file(os.path.join(jail, "src", fname0 if fname0 not in ("", ".", "..") else "x"), d0)
    refconc.write_file(os.path.join(jail, "src", "sub", "g.bin"), d1)
    if single:
        meta = {"info": {"name": name_r, "piece length": P, "length": s0, "pieces": refconc.v1_pieces(d0, P)}}
    else:
        meta = refconc.build_meta([(p0, d0), (["g.bin"], d1)], P, version, name=name_r)
    with open(os.path.join(jail, "t", "m.torrent"), "wb") as f:
        f.write(refconc.bencode(meta))
    # the unrelated file at the landing place outside the destination (as in the model)
    land_m = posixpath.normpath(posixpath.join("/jail/dest", name, *((list(comps) if comps else ["f.bin"]) if not single else [])))
    if not (land_m == "/jail/dest" or land_m.startswith("/jail/dest/")) and land_m != "/":
        land = os.path.normpath(os.path.join(jail, "dest", name_r, *(p0 if not single else [])))
        if land.startswith(workdir + os.sep) and not os.path.exists(land):
            try:
                refconc.write_file(land, b"vic")          # three bytes, as in the model
            except OSError:
                pass
    before = refconc.snapshot(workdir)
    mods = cr.real_torrentfile()
    old = os.getcwd()
    cwd = params.get("cwd", "/jail/cwd")
    os.makedirs(workdir + cwd, exist_ok=True)
    before = refconc.snapshot(workdir)
    os.chdir(workdir + cwd)
    dspell = params.get("dest", "/jail/dest")
    oldhome = os.environ.get("HOME")
    os.makedirs(os.path.join(workdir, "home"), exist_ok=True)
    os.environ["HOME"] = os.path.join(workdir, "home")          # '~' must never reach the real home directory
    before = refconc.snapshot(workdir)
    try:
        with contextlib.redirect_stdout(io.StringIO()):
            a = mods["torrentfile.rebuild"].Assembler([os.path.join(jail, "t", "m.torrent")], [os.path.join(jail, "src")],
                                                      dspell if not dspell.startswith("/") else workdir + dspell)
            a.assemble_torrents()
    except Exception:  # noqa: BLE001
        pass
    finally:
        os.chdir(old)
        if oldhome is not None:
            os.environ["HOME"] = oldhome
    after = refconc.snapshot(workdir)
    bad = []
    for k in set(before) | set(after):
        if before.get(k) != after.get(k) and not (k == "jail/dest" or k.startswith("jail/dest/")):
            bad.append("C19.nothing-outside-changes:%s" % k)
    return bad


def canaries(tier):
    return [
        ("rebuild: containment check dropped for the v1 route", {"rebuild": [(
            "                if not _inside(self.dest, dest_path):\n                    return False\n", "")]},
         ["v1.name.0", "v1.name.3", "v1.first.3"]),
        ("rebuild: containment check dropped for the v2 route", {"rebuild": [(
            "                        if not _inside(dest, dest_path):\n                            continue\n", "")]},
         ["v2.first.3", "v3.name.0", "v2.name.3"]),
    ]


if __name__ == "__main__":
    from harness import common
    raise SystemExit(common.main("harness.c19"))
