"""C01: v1 piece string is the BEP 3 hashing of exactly the files on disk."""
import os

from symx.core import tb
from symx.abuf import ABuf
from symx.loader import World
from symx import refs

from harness import creators as cr
from harness.creators import SHAPES, BLOCK
import refconc

PROPERTY = "C01"
MODULES = ["torrent", "hasher", "utils", "mixins", "cli", "commands"]
ASSUMPTIONS = [
    "A-hash model: sha1/sha256 are replaced by an injective description-valued function; a 'pass' needs no "
    "assumption on contents (equal descriptions imply equal bytes)",
    "regular files never return short reads before EOF; no symlinks/special files (AFS)",
    "progress bar rendering stubbed (mixins.ProgressBar -> no-op)",
    "tree shapes and file names are a finite configuration list; sizes, piece length (hasher jobs) and listing "
    "order are solver variables",
]
WITNESSES = ["empty file", "size == P", "size == P-1", "size == P+1", "size == B+1 (P > B)",
             "piece spans three files", "file ends on piece boundary, more follow"]


def BOUNDS(tier):
    return {"files": "<= 3 (quick) / <= 4 (thorough)", "sizes": "each in [0, K*P], K=2 (3 for <=2 files); thorough K=3",
            "piece_length": "end-to-end: {2^14, 2^15, 2^16}; Hasher driven directly: every integer P >= 1 (symbolic)",
            "outside": "more files / larger sizes than stated; file names other than the listed shapes"}


def jobs(tier):
    out = []
    K3 = 2 if tier == "quick" else 3
    for shape, K in [("single", 3), ("flat2", 3), ("nested3", K3), ("order2", 3), ("flat3", K3)]:
        for P in ([16384] if tier == "quick" else [16384, 32768]):
            out.append(("e2e.%s.P%d" % (shape, P), "job_e2e", dict(shape=shape, P=P, K=K, order="symbolic", progress=0)))
    for shp in cr.scheme_shapes(["flat2", "nested3", "around3"], tier):
        out.append(("e2e.%s.P16384" % shp, "job_e2e", dict(shape=shp, P=16384, K=1 if shp.startswith("nested3") else 2, order="reversed", progress=0)))
    spells = sorted(cr.SPELLINGS)
    for i, sp in enumerate(spells):
        for shape in (("flat2", "nested3") if tier == "thorough" else (("nested3",) if i % 2 else ("flat2",))):
            out.append(("e2e.%s.spelled-%s" % (shape, sp), "job_e2e", dict(shape=shape, P=16384, K=1, order="reversed", progress=0, spelling=sp)))
    from harness import matrix
    for i, row in matrix.rows(tier):
        out.append(("matrix." + matrix.label(i, row), "job_matrix", dict(row=row)))
    out.append(("e2e.flat2.options", "job_options", dict(shape="flat2", P=16384, K=1)))
    out.append(("e2e.single.options", "job_options", dict(shape="single", P=16384, K=2)))
    out.append(("e2e.second-create-after-nested-add", "job_second", dict(P=16384, K=2)))
    out.append(("e2e.hidden2.P16384", "job_e2e", dict(shape="hidden2", P=16384, K=2, order="reversed", progress=0)))
    out.append(("e2e.dir1.P16384", "job_e2e", dict(shape="dir1", P=16384, K=3, order="reversed", progress=0)))
    out.append(("e2e.case2.P16384", "job_e2e", dict(shape="case2", P=16384, K=2, order="symbolic", progress=0)))
    out.append(("e2e.flat2.P32768.prog1", "job_e2e", dict(shape="flat2", P=32768, K=2, order="reversed", progress=1)))
    out.append(("e2e.nested3.P65536", "job_e2e", dict(shape="nested3", P=65536, K=2, order="reversed", progress=2)))
    out.append(("e2e.flat2.auto", "job_e2e", dict(shape="flat2", P=None, K=2, order="reversed", progress=0)))
    out.append(("e2e.single.exp15", "job_e2e", dict(shape="single", P=15, K=3, order="reversed", progress=0)))
    for n, K in [(1, 4), (2, 3), (3, 2)] + ([(4, 2), (3, 3)] if tier == "thorough" else []):
        out.append(("hasher.symP.n%d.K%d" % (n, K), "job_hasher_symP", dict(n=n, K=K)))
    if tier == "thorough":
        out.append(("e2e.nested4.P16384", "job_e2e", dict(shape="nested4", P=16384, K=2, order="reversed", progress=0)))
        out.append(("e2e.deep2.P16384", "job_e2e", dict(shape="deep2", P=16384, K=3, order="symbolic", progress=0)))
    return out


def _witness(E, sizes, P):
    ss = list(sizes)
    for s in ss:
        E.witness("empty file", s == 0)
        E.witness("size == P", s == P)
        E.witness("size == P-1", s == P - 1)
        E.witness("size == P+1", s == P + 1)
        if isinstance(P, int) and P > BLOCK:
            E.witness("size == B+1 (P > B)", s == BLOCK + 1)
    if len(ss) >= 3:
        from symx.core import conj
        E.witness("piece spans three files", conj(ss[0] > 0, ss[1] > 0, ss[2] > 0, ss[0] + ss[1] < P))
    if len(ss) >= 2:
        from symx.core import conj
        E.witness("file ends on piece boundary, more follow", conj(ss[0] == P, ss[1] > 0))


def oracle_v1(E, info, fs, base, sizes, P, shape, tag="C01", aligned=False):
    """info must describe exactly the files of the tree; pieces must be the BEP 3
    hashing of the listed stream (padding entries, if any, read as zeros)."""
    rels = SHAPES[shape]
    E.check(info.get("piece length") == P, tag + ".piece-length", "recorded %r" % (info.get("piece length"),))
    if shape == "single":
        s = sizes[rels[0]]
        E.check("files" not in info, tag + ".single.no-files")
        E.check(info.get("length") == s, tag + ".single.length")
        from harness import oracles as _orc
        exp = refs.v1_pieces(_orc.content_of(shape, rels[0], sizes), P)
        E.check(info.get("pieces") == exp, tag + ".single.pieces", "piece string differs from BEP 3 reference")
        return
    files = info.get("files")
    if not E.check(isinstance(files, list), tag + ".files-list"):
        return
    E.check("length" not in info, tag + ".multi.no-length")
    seen = []
    stream = ABuf.of([])
    for f in files:
        if f.get("attr") == "p":
            stream.extend(ABuf(f["length"]))
            continue
        rel = "/".join(["name"] + list(f["path"]))
        if not E.check(rel in rels, tag + ".files.only-real", "listed %r is not a file of the tree" % rel):
            continue
        E.check(rel not in seen, tag + ".files.once", "%r listed twice" % rel)
        seen.append(rel)
        E.check(f["length"] == sizes[rel], tag + ".files.length", "length of %r" % rel)
        from harness import oracles as _orc
        stream.extend(_orc.content_of(shape, rel, sizes))
    E.check(sorted(seen) == sorted(rels), tag + ".files.all", "listed %r, tree has %r" % (seen, rels))
    exp = refs.v1_pieces(stream, P)
    E.check(info.get("pieces") == exp, tag + ".pieces", "piece string differs from BEP 3 reference of the listed stream")


def job_e2e(E, shape, P, K, order, progress, spelling=None, _mutants=None):
    Pn = P if (P and P > 30) else (2 ** P if P else 16384)
    fs, sizes = cr.make_fs(E, shape, K, Pn, order=order)
    if shape != "single":
        from symx.core import disj
        E.assume(disj(*[s > 0 for s in sizes.values()]))
    w = World(fs, mutants=_mutants)
    kw = dict(path=cr.spelled(fs, spelling) if spelling else "/data/name", progress=progress)
    if P:
        kw["piece_length"] = P
    try:
        t = cr.create(w, "1", **kw)
    except Exception as ex:  # noqa: BLE001
        E.fail("C01.no-exception", "%s: %s" % (type(ex).__name__, ex))
        return
    info = t.meta["info"]
    oracle_v1(E, info, fs, "/data", sizes, Pn, shape)
    E.check(not fs.log, "C01.no-writes", "creator mutated the filesystem: %r" % (fs.log[:3],))
    _witness(E, [sizes[r] for r in SHAPES[shape]], Pn)


def job_matrix(E, row, _mutants=None):
    """One row of the configuration matrix (harness/matrix.py) with symbolic sizes, judged by the C01 oracle."""
    from harness import matrix
    matrix.run(E, "1", row, lambda e, meta, sizes, Pn, shape: oracle_v1(e, meta["info"], None, "/data", sizes, Pn, shape, tag="C01.matrix"),
               "C01.matrix", _mutants=_mutants)


def job_options(E, shape, P, K, _mutants=None):
    """Option combinations that must not influence a v1 metafile's file list and pieces: `content` as an alias
    of `path`, the three progress modes, `cwd`, a private flag / source / comment (info-level, but irrelevant to
    the pieces), piece length given as exponent, as integer or as string."""
    fs, sizes = cr.make_fs(E, shape, K, P, order="reversed", lo=1 if shape == "single" else 0)
    if shape != "single":
        from symx.core import disj
        E.assume(disj(*[s > 0 for s in sizes.values()]))
    kw = {}
    kw["content" if E.choice("opt.content-alias", 2) else "path"] = "/data/name"
    kw["progress"] = [0, 1, "2"][E.choice("opt.progress", 3)]
    kw["piece_length"] = [P, "14", str(P)][E.choice("opt.plen-spelling", 3)]
    if E.choice("opt.cwd", 2):
        kw["cwd"] = True
    if E.choice("opt.info-options", 2):
        kw.update(private=True, source="src", comment="a comment")
    E.note("kw", {k: v for k, v in kw.items()})
    w = World(fs, mutants=_mutants)
    try:
        t = cr.create(w, "1", **kw)
    except Exception as ex:  # noqa: BLE001
        E.fail("C01.no-exception", "%s: %s (options %r)" % (type(ex).__name__, ex, kw))
        return
    oracle_v1(E, t.meta["info"], fs, "/data", sizes, P, shape, tag="C01.options")


def job_second(E, P, K, _mutants=None):
    """The property holds for every creation: create, add a file below a
    sub-directory (the root's own entries do not change), create again in the
    same process."""
    from symx.afs import AFS
    shape = "grown3"
    rels = SHAPES[shape]
    fs = AFS(order="reversed")
    sizes = {r: E.int("s%d" % i, 0, K * P) for i, r in enumerate(rels)}
    E.note("shape", shape)
    from symx.core import disj
    E.assume(disj(sizes[rels[0]] > 0, sizes[rels[1]] > 0))
    for i, r in enumerate(rels[:2]):
        fs.add("/data/" + r, ("f", i), sizes[r])
    w = World(fs, mutants=_mutants)
    try:
        cr.create(w, "1", path="/data/name", piece_length=P, progress=0)
        fs.add("/data/" + rels[2], ("f", 2), sizes[rels[2]])
        t = cr.create(w, "1", path="/data/name", piece_length=P, progress=0)
    except Exception as ex:  # noqa: BLE001
        E.fail("C01.no-exception", "%s: %s" % (type(ex).__name__, ex))
        return
    oracle_v1(E, t.meta["info"], fs, "/data", sizes, P, shape, tag="C01.second")


def job_hasher_symP(E, n, K, _mutants=None):
    """Hasher driven directly with a fully symbolic piece length (v1 hashing never
    divides by P, so all terms stay linear): covers every piece length."""
    from symx.afs import AFS
    P = E.int("P", 1, None)
    fs = AFS()
    sizes, paths, contents = [], [], []
    for i in range(n):
        s = E.int("s%d" % i, 0, None)
        E.assume(s <= K * P)
        sizes.append(s)
        paths.append(fs.add("/data/f%d" % i, ("f", i), s))
    E.note("files", ["f%d" % i for i in range(n)])
    w = World(fs, mutants=_mutants)
    H = w.mod("hasher")
    got = ABuf.of([])
    try:
        for piece in H.Hasher(paths, P, progress=0, progress_bar=w.mod("mixins").ProgMixin.NoProg()):
            got.extend(piece)
    except Exception as ex:  # noqa: BLE001
        E.fail("C01.hasher.no-exception", "%s: %s" % (type(ex).__name__, ex))
        return
    stream = ABuf.of([])
    for i in range(n):
        stream.extend(ABuf.file(("f", i), sizes[i]))
    E.check(got == refs.v1_pieces(stream, P), "C01.hasher.pieces", "Hasher output differs from BEP 3 reference")
    _witness(E, sizes, P)


# ---------------------------------------------------------------- concrete side

def _conc_run(params, model, workdir, seed, notes=None):
    notes = notes or {}
    if "row" in params:
        from harness import matrix
        row = params["row"]
        meta, data, Pn = matrix.replay("1", row, model, workdir, seed)
        if isinstance(meta, BaseException):
            return ["C01.matrix.no-exception: %s: %s" % (type(meta).__name__, meta)]
        return ["C01.matrix." + b for b in cr.conc_v1(meta["info"], None, data, Pn, sorted(SHAPES[row["tree"]]))]
    if "n" in params:
        n = params["n"]
        P = int(model["P"])
        datas = [refconc.content(("f", i), int(model["s%d" % i]), seed) for i in range(n)]
        paths = []
        for i, d in enumerate(datas):
            p = os.path.join(workdir, "data", "f%d" % i)
            refconc.write_file(p, d)
            paths.append(p)
        mods = cr.real_torrentfile()
        H = mods["torrentfile.hasher"]
        NoProg = mods["torrentfile.mixins"].ProgMixin.NoProg
        got = b"".join(bytes(x) for x in H.Hasher(paths, P, progress=0, progress_bar=NoProg()))
        return [] if got == refconc.v1_pieces(b"".join(datas), P) else ["C01.hasher.pieces"]
    if "shape" not in params:
        shape, P = "grown3", params["P"]
        rels = SHAPES[shape]
        sizes = cr.concrete_sizes(shape, model)
        data = {r: refconc.content(("f", i), sizes[r], seed) for i, r in enumerate(rels)}
        for r in rels[:2]:
            refconc.write_file(os.path.join(workdir, "data", r), data[r])
        root = os.path.join(workdir, "data", "name")
        mods = cr.real_torrentfile()
        T = mods["torrentfile.torrent"]
        import io
        import contextlib
        try:
            with contextlib.redirect_stdout(io.StringIO()):
                T.TorrentFile(path=root, piece_length=P, progress=0)
                refconc.write_file(os.path.join(workdir, "data", rels[2]), data[rels[2]])
                t = T.TorrentFile(path=root, piece_length=P, progress=0)
        except Exception as ex:  # noqa: BLE001
            return ["C01.no-exception: %s" % ex]
        return ["C01.second." + b for b in cr.conc_v1(t.meta["info"], root, data, P, sorted(rels))]
    shape, P = params["shape"], params["P"]
    Pn = P if (P and P > 30) else (2 ** P if P else 16384)
    sizes = cr.concrete_sizes(shape, model)
    root, data = cr.materialize(workdir, shape, sizes, seed)
    kw = dict(path=root, progress=0)
    if P:
        kw["piece_length"] = P
    if "kw" in notes:
        kw = dict(notes["kw"])
        for k in ("path", "content"):
            if k in kw:
                kw[k] = root
    old = os.getcwd()
    if params.get("spelling"):
        kw["path"], cwd = cr.spelled_real(workdir, params["spelling"])
        os.chdir(cwd)
    try:
        t = cr.real_create("1", **kw)
    except Exception as ex:  # noqa: BLE001
        return ["C01.no-exception: %s" % ex]
    finally:
        os.chdir(old)
    order = sorted(SHAPES[shape])
    return ["C01." + b for b in cr.conc_v1(t.meta["info"], root, data, Pn, order)]


def replay(params, model, notes, workdir, seed):
    return _conc_run(params, model, workdir, seed, notes)


def validate(tier, workdir, seed):
    """Model validation: pinned sizes through the model and through the real
    package on real files; abstract digests evaluated on the real bytes."""
    import random
    rnd = random.Random(seed + 101)
    runs, errs = 0, []
    cases = []
    for shape in ("single", "flat2", "nested3", "order2"):
        n = len(SHAPES[shape])
        for P in (16384, 32768):
            cases.append((shape, P, [rnd.choice([0, 1, P - 1, P, P + 1, BLOCK + 1, 2 * P, rnd.randrange(3 * P)]) for _ in range(n)]))
    cases.append(("flat2", 16384, [2 ** 13, 2 ** 15]))
    for shape, P, ss in cases[: (6 if tier == "quick" else len(cases))]:
        if shape != "single" and not any(ss):
            ss[0] = 5
        vals = {"s%d" % i: v for i, v in enumerate(ss)}
        pin = cr.Pinned(vals)
        fs, sizes = cr.make_fs(pin, shape, 3, P, order="reversed")
        w = World(fs)
        t = cr.create(w, "1", path="/data/name", piece_length=P, progress=0)
        files = {("f", i): refconc.content(("f", i), v, seed) for i, v in enumerate(ss)}
        model_meta = cr.canon_meta(t.meta["info"], files)
        d = os.path.join(workdir, "val%d" % runs)
        root, data = cr.materialize(d, shape, {r: ss[i] for i, r in enumerate(SHAPES[shape])}, seed)
        real = cr.norm_real(cr.real_create("1", path=root, piece_length=P).meta["info"])
        runs += 1
        if model_meta != real:
            errs.append("model != real for %s P=%d sizes=%r" % (shape, P, ss))
    return runs, errs


def canaries(tier):
    return [
        ("hasher: break on any read (size <= target)", {"hasher": [("if size == target:", "if size <= target:")]},
         ["e2e.nested3.P16384", "hasher.symP.n3*"]),
        ("hasher: zero bytes of a short read kept", {"hasher": [("arr.extend(temp[:size])", "arr.extend(temp)")]},
         ["e2e.flat2.P16384", "hasher.symP.n2*"]),
        ("torrent: length taken from the wrong file", {"torrent": [(
            "os.path.getsize(path),\n                \"path\":\n                os.path.relpath(path, self.path).split(os.sep),\n            } for path in filelist]",
            "os.path.getsize(filelist[0]),\n                \"path\":\n                os.path.relpath(path, self.path).split(os.sep),\n            } for path in filelist]")]},
         ["e2e.flat2.P16384"]),
    ]


if __name__ == "__main__":
    from harness import common
    raise SystemExit(common.main("harness.c01"))
