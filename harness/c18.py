"""C18: inspecting commands are read-only; create writes one file; rename never clobbers."""
import os

from symx.core import tb, disj, Unsupported
from symx.abuf import ABuf
from symx.afs import AFS
from symx.loader import World, BenTok, ben_copy

from harness import creators as cr
from harness import recheck as rk
from harness.creators import SHAPES
import refconc

PROPERTY = "C18"
MODULES = ["commands", "cli", "recheck", "torrent", "utils", "hasher"]
ASSUMPTIONS = [
    "closed world: every torrentfile module runs with the abstract filesystem as its only os/shutil/pathlib/open; an "
    "import of anything that could touch files otherwise (tempfile, subprocess, mmap, ...) turns the run inconclusive, "
    "so 'no other write path exists' is meaningful",
    "commands are driven through the real cli.execute() with the real argparse on concrete argument vectors (a handful "
    "of spellings: aliases, option order); argparse itself is not analysed",
    "create is judged on the final filesystem state (the writability probe legitimately creates and removes the "
    "not-yet-existing output file); sizes and damage positions are solver variables so every iterator path is covered",
    "stdout/stderr are no-op sinks",
]
WITNESSES = ["recheck of damaged content", "create into existing outfile", "rename refused"]


def BOUNDS(tier):
    return {"info/magnet": "v1, v2, hybrid metafiles with and without optional keys",
            "recheck": "v1/v2/hybrid, flat2/nested3, intact and one damaged file, sizes in [0, 2P]",
            "create": "versions 1/2/3, single/flat2/nested3, outfile: given / existing / directory with separator / default in cwd; --magnet",
            "rename": "target name differs from info.name; destination exists or not",
            "outside": "command-line spellings beyond the listed vectors; symlinks; concurrent processes"}


def jobs(tier):
    q = tier == "quick"
    out = []
    for version in (1, 2, 3):
        out.append(("info.v%d" % version, "job_info", dict(version=version, cmd="info")))
        out.append(("magnet.v%d" % version, "job_info", dict(version=version, cmd="magnet")))
        for shape, dmgs in (("flat2", (["intact", "intact"], ["trunc", "intact"], ["intact", "missing"], ["flip", "intact"])),
                            ("nested3", (["intact", "intact", "intact"], ["intact", "missing", "intact"]))):
            if q and shape == "nested3" and version == 2:
                continue
            for dmg in dmgs:
                out.append(("recheck.v%d.%s.%s" % (version, shape, "-".join(k[0] for k in dmg)), "job_recheck",
                            dict(version=version, shape=shape, dmg=dmg)))
        for shape in ("single", "flat2") + (() if q else ("nested3",)):
            for outkind in ("given", "existing", "dir", "default"):
                out.append(("create.v%d.%s.%s" % (version, shape, outkind), "job_create", dict(version=version, shape=shape, outkind=outkind)))
    if not q:
        for version in (1, 2, 3):
            for shape in ("single", "flat2", "nested3"):
                for outkind in ("given", "existing", "dir", "default"):
                    out.append(("create.v%d.%s.%s.magnet" % (version, shape, outkind), "job_create",
                                dict(version=version, shape=shape, outkind=outkind, magnet=True)))
            for shape in ("flat2", "nested3"):
                n = len(rk.SHAPES[shape])
                import itertools as _it
                for dmg in _it.product(("intact", "trunc", "missing", "flip"), repeat=n):
                    if sum(1 for k in dmg if k != "intact") > (2 if n == 2 else 1):
                        continue
                    label = "recheck.v%d.%s.%s" % (version, shape, "-".join(k[0] for k in dmg))
                    if not any(j[0] == label for j in out):
                        out.append((label, "job_recheck", dict(version=version, shape=shape, dmg=list(dmg))))
    out.append(("create.v1.flat2.magnet", "job_create", dict(version=1, shape="flat2", outkind="given", magnet=True)))
    for exists in (False, True):
        out.append(("rename.%s" % ("exists" if exists else "free"), "job_rename", dict(exists=exists)))
    out.append(("rename.exists.case-variant", "job_rename", dict(exists=True, target="NAME.torrent")))
    out.append(("rename.same-name", "job_rename", dict(exists=True, target="name.torrent")))
    out.append(("rename.exists.same-size-and-time", "job_rename", dict(exists=True, same_stamp=True)))
    for version in (1, 3):
        for how in ("flag", "config"):
            out.append(("create-fails.v%d.out-by-%s" % (version, how), "job_create_fails", dict(version=version, how=how)))
    for version in (1, 2, 3):
        for pname in ("Backup.Torrent", "name.torrent", ".torrent"):
            if q and (version + len(pname)) % 2:
                continue
            for outkind in ("parent-dir", "default-in-parent"):
                out.append(("create.v%d.payload-%s.%s" % (version, pname, outkind), "job_create",
                            dict(version=version, shape="single", outkind=outkind, pname=pname)))
    for nm in ("./name", "sub/name", "../dl/name", "ghost/../keep", "ghost/../../dl/keep"):
        out.append(("rename.exists.name-%s" % nm.replace("/", "_"), "job_rename", dict(exists=True, mname=nm)))
    return out


def run_cli(E, w, argv, tag):
    try:
        return True, w.mod("cli").execute(list(argv))
    except Unsupported:
        raise
    except SystemExit as ex:
        E.fail(tag + ".cli-exit", "argparse rejected %r: %s" % (argv, ex))
        return False, None
    except Exception as ex:  # noqa: BLE001
        return False, ex


def concrete_meta(version, sizes_syms=None):
    """Metafile with concrete strings and opaque hash tokens."""
    from harness import editw as ew
    pin = cr.Pinned({})
    m = ew.base_meta(pin, version, {"announce": True, "comment-top": False, "httpseeds": True, "comment": True,
                                    "private": False, "source": True, "url-list": True})
    def conc(x):
        if isinstance(x, dict):
            return {k: conc(v) for k, v in x.items()}
        if isinstance(x, list):
            return [conc(v) for v in x]
        if hasattr(x, "_ostr"):
            return "str-" + x.name
        return x
    return conc(m)


def job_info(E, version, cmd, _mutants=None):
    fs = AFS()
    meta = concrete_meta(version)
    fs.add_token("/t/m.torrent", BenTok(ben_copy(meta)))
    fs.add("/t/other.bin", ("x", 0), E.int("s0", 0, 1000))
    snap = fs.snapshot()
    w = World(fs, mutants=_mutants)
    argvs = [["info", "/t/m.torrent"]] if cmd == "info" else [["magnet", "/t/m.torrent"], ["m", "/t/m.torrent", "--meta-version", "0"],
                                                            ["-q", "magnet", "--meta-version", str(min(version, 2)) if version < 3 else "3", "/t/m.torrent"]]
    for argv in argvs:
        ok, res = run_cli(E, w, argv, "C18." + cmd)
        if not ok:
            if res is not None:
                E.fail("C18.%s.no-exception" % cmd, "%s: %s" % (type(res).__name__, res))
            return
        E.check(not fs.log, "C18.%s.no-mutation" % cmd, "%s performed %r" % (cmd, fs.log[:3]))
        E.check(not fs.diff(snap), "C18.%s.state-unchanged" % cmd, "%r" % (fs.diff(snap)[:3],))
    for k in WITNESSES:
        E.witnesses.setdefault(k, True)


def job_recheck(E, version, shape, dmg, _mutants=None):
    P = 16384
    rels = SHAPES[shape]
    fs = AFS(order="reversed")
    sizes = {r: E.int("s%d" % i, 0, 2 * P) for i, r in enumerate(rels)}
    E.note("shape", shape)
    E.assume(disj(*[s > 0 for s in sizes.values()]))
    disk_ext, damaged = rk.apply_damage(E, fs, shape, sizes, dmg)
    meta = rk.ref_meta(E, version, shape, sizes, P, False, True)
    fs.add_token("/t/m.torrent", BenTok(meta))
    snap = fs.snapshot()
    w = World(fs, mutants=_mutants)
    ok, res = run_cli(E, w, ["recheck", "/t/m.torrent", "/data"], "C18.recheck")
    if not ok:
        if res is not None:
            E.fail("C18.recheck.no-exception", "%s: %s" % (type(res).__name__, res))
        return
    E.check(not fs.log, "C18.recheck.no-mutation", "recheck performed %r" % (fs.log[:3],))
    E.check(not fs.diff(snap), "C18.recheck.state-unchanged", "%r" % (fs.diff(snap)[:3],))
    if damaged:
        E.witnesses["recheck of damaged content"] = True


def job_create(E, version, shape, outkind, magnet=False, pname=None, _mutants=None, _second=False):
    P = 16384
    fs, sizes = cr.make_fs(E, shape, 2, P, order="reversed", lo=1 if shape == "single" else 0, cwd="/work")
    if shape != "single":
        E.assume(disj(*[s > 0 for s in sizes.values()]))
    fs.mkdirs("/out")
    fs.add("/out/keep.bin", ("k", 0), 10)
    fs.add("/work/keep2.bin", ("k", 1), 10)
    content = "/data/name"
    if pname:
        # a single-file payload whose own name looks like a metafile's, the output going next to it
        fs.rename("/data/name", "/data/" + pname)
        del fs.log[:]
        content = "/data/" + pname
    argv = ["create", content, "--meta-version", str(version), "--piece-length", "14", "--prog", "0"]
    if outkind == "parent-dir":
        argv += ["-o", "/data/"]
        expect = "/data/%s.torrent" % pname
    elif outkind == "default-in-parent":
        fs.cwd = "/data"
        expect = "/data/%s.torrent" % pname
    elif outkind == "given":
        argv += ["-o", "/out/x.torrent"]
        expect = "/out/x.torrent"
    elif outkind == "existing":
        fs.add_token("/out/x.torrent", BenTok({"old": 1}))
        argv = ["new", "-o", "/out/x.torrent", "--meta-version", str(version), "--piece-length", "14", "--prog", "0", "/data/name"]
        expect = "/out/x.torrent"
        E.witnesses["create into existing outfile"] = True
    elif outkind == "dir":
        argv += ["--out", "/out/"]
        expect = "/out/name.torrent"
    else:
        expect = "/work/name.torrent"
    if magnet:
        argv += ["--magnet"]
    snap = fs.snapshot()
    w = World(fs, mutants=_mutants)
    ok, res = run_cli(E, w, argv, "C18.create")
    if not ok:
        if res is not None:
            E.fail("C18.create.no-exception", "%s: %s" % (type(res).__name__, res))
        return
    diff = fs.diff(snap)
    E.check(all(p == expect for _, p in diff), "C18.create.only-outfile", "besides %s the filesystem changed: %r" % (expect, diff[:4]))
    E.check(expect in fs.files, "C18.create.outfile-written", "expected output %s; changes: %r" % (expect, diff[:4]))
    node = fs.files.get(expect)
    if node is not None:
        segs = node.content.segs
        E.check(len(segs) == 1 and segs[0][0] == "T" and isinstance(segs[0][1], BenTok) and "info" in segs[0][1].obj,
                "C18.create.outfile-is-metafile")
    # second pass: every path the command touched besides its output (temporary names, probes) is occupied by a
    # bystander file beforehand; the bystanders must survive untouched
    touched = sorted({a for entry in fs.log for a in entry[1:] if isinstance(a, str) and a.startswith("/") and a != expect
                      and a not in snap[0] and not (a == content or a.startswith(content + "/"))})
    if touched and not _second:
        fs2, _sizes2 = cr.make_fs(E, shape, 2, P, order="reversed", lo=1 if shape == "single" else 0, cwd="/work")
        fs2.mkdirs("/out")
        fs2.add("/out/keep.bin", ("k", 0), 10)
        fs2.add("/work/keep2.bin", ("k", 1), 10)
        if outkind == "existing":
            fs2.add_token("/out/x.torrent", BenTok({"old": 1}))
        for i, t in enumerate(touched):
            fs2.add_token(t, ("BYSTANDER", i))
        snap2 = fs2.snapshot()
        w2 = World(fs2, mutants=_mutants)
        ok2, res2 = run_cli(E, w2, argv, "C18.create")
        diff2 = fs2.diff(snap2)
        E.note("bystanders", touched)
        E.check(all(p == expect for _, p in diff2), "C18.create.bystanders-untouched",
                "a file that happened to be called %r was changed or removed by create: %r" % (touched, diff2[:4]))
    payload = [p for p in snap[0] if p.startswith("/data/")]
    for entry in fs.log:
        if entry[0] in ("open-a", "open-r+", "open-a+"):
            continue            # opening for update without writing modifies nothing (what is written shows up as 'write')
        E.check(not any((a == content or str(a).startswith(content + "/")) and a != expect for a in entry[1:] if isinstance(a, str)), "C18.create.payload-read-only",
                "mutating operation on the payload: %r" % (entry,))
    for k in WITNESSES:
        E.witnesses.setdefault(k, True)


def job_create_fails(E, version, how, _mutants=None):
    """A create that fails (the content path does not exist) while a metafile already sits at the output path - given
    by -o or by the configuration file: nothing at all changes."""
    fs = AFS(cwd="/work")
    fs.add("/data/name/a", ("f", 0), E.int("s0", 1, 100))
    fs.mkdirs("/out")
    fs.mkdirs("/cfg")
    fs.add_token("/out/x.torrent", BenTok({"old": 1}))
    argv = ["create", "--meta-version", str(version), "--piece-length", "14", "--prog", "0"]
    if how == "flag":
        argv += ["-o", "/out/x.torrent"]
    else:
        fs.add_token("/cfg/t.ini", ("INI", {"config": {"out": "/out/x.torrent", "comment": "c"}}))
        argv += ["--config", "--config-path", "/cfg/t.ini"]
    argv += ["/data/nmae"]                 # mistyped
    snap = fs.snapshot()
    w = World(fs, mutants=_mutants)
    ok, res = run_cli(E, w, argv, "C18.create-fails")
    E.check(not ok, "C18.create-fails.reports-failure", "create of a missing path returned normally")
    d = fs.diff(snap)
    E.check(not d, "C18.create-fails.nothing-changes", "a failed create changed the filesystem: %r" % (d[:4],))
    for k in WITNESSES:
        E.witnesses.setdefault(k, True)


def job_rename(E, exists, target="abc123.torrent", mname=None, same_stamp=False, _mutants=None):
    fs = AFS()
    meta = concrete_meta(1)
    victim = "/t/dl/name.torrent"
    if mname:
        # a name with separators / dot segments (legal for other tools, or hostile): wherever the joined path lands,
        # an existing file there must not be replaced
        meta["info"]["name"] = mname
        import posixpath as _pp
        victim = _pp.normpath(_pp.join("/t/dl", mname + ".torrent"))
        fs.mkdirs(_pp.dirname(victim))
    tpath = "/t/dl/" + target
    fs.add_token(tpath, BenTok(ben_copy(meta)))
    if exists and target != "name.torrent":
        fs.add_token(victim, BenTok({"other": 1}))
        if same_stamp:
            # another metafile of (possibly) the same size with the same modification time (archive extraction, rsync -t)
            fs.mtime[victim] = fs.mtime[tpath]
        E.witnesses["rename refused"] = True
    fs.add("/t/dl/x.bin", ("x", 0), E.int("s0", 0, 100))
    snap = fs.snapshot()
    w = World(fs, mutants=_mutants)
    ok, res = run_cli(E, w, ["rename", tpath], "C18.rename")
    if target == "name.torrent":
        # already carries its name: whatever the command answers, nothing may change
        E.check(not fs.diff(snap), "C18.rename.same-name-changes-nothing", "%r" % (fs.diff(snap)[:3],))
    elif exists:
        if mname is None:
            E.check(not ok and isinstance(res, FileExistsError), "C18.rename.refuses-existing", "result %r" % (res,))
        E.check(victim in fs.files and fs.files[victim].content == snap[0][victim], "C18.rename.never-replaces-existing",
                "the existing file %s was replaced" % victim)
        if mname is None:
            E.check(not fs.diff(snap) and not fs.log, "C18.rename.refusal-changes-nothing", "%r" % (fs.log[:3],))
    else:
        if not ok:
            if res is not None:
                E.fail("C18.rename.no-exception", "%s: %s" % (type(res).__name__, res))
            return
        E.check(fs.log == [("rename", tpath, "/t/dl/name.torrent")], "C18.rename.exactly-one-rename", "%r" % (fs.log,))
        d = fs.diff(snap)
        E.check(sorted(d) == [("created", "/t/dl/name.torrent"), ("removed", tpath)], "C18.rename.only-the-name", "%r" % (d,))
        E.check(fs.files["/t/dl/name.torrent"].content == snap[0][tpath], "C18.rename.bytes-unchanged")
    for k in WITNESSES:
        E.witnesses.setdefault(k, True)


# ------------------------------------------------------------------ concrete replay

def replay(params, model, notes, workdir, seed):
    import io
    import contextlib
    import sys
    mods = cr.real_torrentfile()
    import torrentfile.cli as cli
    cli = sys.modules["torrentfile.cli"]

    def run(argv):
        old_out, old_err = sys.stdout, sys.stderr
        try:
            with contextlib.redirect_stdout(io.StringIO()), contextlib.redirect_stderr(io.StringIO()):
                return True, cli.execute(list(argv))
        except SystemExit:
            return False, None
        except Exception as ex:  # noqa: BLE001
            return False, ex
        finally:
            sys.stdout, sys.stderr = old_out, old_err
    if "cmd" in params:
        from harness import c07
        version = params["version"]
        base = c07.conc_base(version, {"base.%s" % k: 1 for k in ("announce", "httpseeds", "comment", "source", "url-list")})
        mp = os.path.join(workdir, "t", "m.torrent")
        refconc.write_file(mp, refconc.bencode(base))
        before = refconc.snapshot(workdir)
        ok, res = run([params["cmd"], mp])
        if not ok:
            return ["C18.%s.no-exception: %r" % (params["cmd"], res)]
        return [] if refconc.snapshot(workdir) == before else ["C18.%s.state-unchanged" % params["cmd"]]
    if "dmg" in params:
        p2 = dict(params, prop="C18", P=16384, K=2, source="ref")
        mpath, cpath, data, disk, sizes = rk.conc_world(p2, model, workdir, seed)
        before = refconc.snapshot(workdir)
        ok, res = run(["recheck", mpath, os.path.dirname(cpath)])
        if not ok:
            return ["C18.recheck.no-exception: %r" % (res,)]
        return [] if refconc.snapshot(workdir) == before else ["C18.recheck.state-unchanged"]
    if "outkind" in params:
        shape, version, outkind = params["shape"], params["version"], params["outkind"]
        sizes = cr.concrete_sizes(shape, model)
        root, data = cr.materialize(workdir, shape, sizes, seed)
        out = os.path.join(workdir, "out")
        work = os.path.join(workdir, "work")
        os.makedirs(out)
        os.makedirs(work)
        refconc.write_file(os.path.join(out, "keep.bin"), b"k" * 10)
        refconc.write_file(os.path.join(work, "keep2.bin"), b"k" * 10)
        pname = params.get("pname")
        if pname:
            os.rename(root, os.path.join(os.path.dirname(root), pname))
            root = os.path.join(os.path.dirname(root), pname)
        argv = ["create", root, "--meta-version", str(version), "--piece-length", "14", "--prog", "0"]
        if outkind == "parent-dir":
            argv += ["-o", os.path.dirname(root) + "/"]
            expect = os.path.join("data", pname + ".torrent")
        elif outkind == "default-in-parent":
            work = os.path.dirname(root)
            expect = os.path.join("data", pname + ".torrent")
        elif outkind in ("given", "existing"):
            argv += ["-o", os.path.join(out, "x.torrent")]
            expect = os.path.join("out", "x.torrent")
            if outkind == "existing":
                refconc.write_file(os.path.join(out, "x.torrent"), b"d3:oldi1ee")
        elif outkind == "dir":
            argv += ["--out", out + "/"]
            expect = os.path.join("out", "name.torrent")
        else:
            expect = os.path.join("work", "name.torrent")
        if params.get("magnet"):
            argv.append("--magnet")
        for t in notes.get("bystanders", []) or []:
            rel = t.lstrip("/")
            refconc.write_file(os.path.join(workdir, rel), b"bystander")
        before = refconc.snapshot(workdir)
        old = os.getcwd()
        os.chdir(work)
        try:
            ok, res = run(argv)
        finally:
            os.chdir(old)
        if not ok:
            return ["C18.create.no-exception: %r" % (res,)]
        after = refconc.snapshot(workdir)
        changed = [k for k in set(before) | set(after) if before.get(k) != after.get(k)]
        bad = []
        if any(k != expect for k in changed):
            bad.append("C18.create.only-outfile: %r" % (changed,))
        if expect not in after:
            bad.append("C18.create.outfile-written")
        return bad
    if "how" in params:
        data = os.path.join(workdir, "data", "name", "a")
        refconc.write_file(data, b"x" * int(model.get("s0", 1)))
        out = os.path.join(workdir, "out")
        os.makedirs(out)
        refconc.write_file(os.path.join(out, "x.torrent"), b"d3:oldi1ee")
        argv = ["create", "--meta-version", str(params["version"]), "--piece-length", "14", "--prog", "0"]
        if params["how"] == "flag":
            argv += ["-o", os.path.join(out, "x.torrent")]
        else:
            ini = os.path.join(workdir, "t.ini")
            with open(ini, "w") as f:
                f.write("[config]\nout = %s\ncomment = c\n" % os.path.join(out, "x.torrent"))
            argv += ["--config", "--config-path", ini]
        argv += [os.path.join(workdir, "data", "nmae")]
        before = refconc.snapshot(workdir)
        ok, res = run(argv)
        after = refconc.snapshot(workdir)
        bad = []
        if ok:
            bad.append("C18.create-fails.reports-failure")
        if after != before:
            bad.append("C18.create-fails.nothing-changes: %r" % sorted(k for k in set(before) | set(after) if before.get(k) != after.get(k)))
        return bad
    # rename
    from harness import c07
    base = c07.conc_base(1, {})
    d = os.path.join(workdir, "dl")
    target = params.get("target", "abc123.torrent")
    victim = os.path.join(d, "name.torrent")
    if params.get("mname"):
        base["info"]["name"] = params["mname"]
        victim = os.path.normpath(os.path.join(d, params["mname"] + ".torrent"))
    refconc.write_file(os.path.join(d, target), refconc.bencode(base))
    if params["exists"] and target != "name.torrent":
        refconc.write_file(victim, b"d5:otheri1ee")
        if params.get("same_stamp"):
            # same size and same modification time as the file being renamed, different bytes
            n = os.path.getsize(os.path.join(d, target))
            other = bytearray(open(os.path.join(d, target), "rb").read())
            other[-2] ^= 1
            with open(victim, "wb") as f:
                f.write(bytes(other)[:n])
            st = os.stat(os.path.join(d, target))
            os.utime(victim, ns=(st.st_atime_ns, st.st_mtime_ns))
    before = refconc.snapshot(workdir)
    ok, res = run(["rename", os.path.join(d, target)])
    after = refconc.snapshot(workdir)
    if target == "name.torrent":
        return [] if after == before else ["C18.rename.same-name-changes-nothing"]
    if params.get("same_stamp"):
        return [] if (not ok and after == before) else ["C18.rename.never-replaces-existing"]
    if params.get("mname"):
        return [] if (os.path.exists(victim) and open(victim, "rb").read() == b"d5:otheri1ee") else ["C18.rename.never-replaces-existing"]
    if params["exists"]:
        return [] if (not ok and after == before) else ["C18.rename.refuses-existing"]
    want = dict(before)
    want[os.path.join("dl", "name.torrent")] = want.pop(os.path.join("dl", target))
    return [] if (ok and after == want) else ["C18.rename.only-the-name"]


def canaries(tier):
    return [
        ("recheck: writes a resume marker next to the metafile when content is incomplete", {"recheck": [(
            "        self._result = (matched / consumed) * 100 if consumed > 0 else 0\n",
            "        self._result = (matched / consumed) * 100 if consumed > 0 else 0\n        if matched != consumed:\n            with open(str(self.metafile) + \".partial\", \"wb\") as _fd:\n                _fd.write(b\"x\")\n")]},
         ["recheck.v1.flat2.*", "recheck.v2.flat2.*"]),
        ("check_path_writable: probe not removed for directory targets", {"utils": [(
            "        with open(path, \"ab\") as _:\n            pass\n        os.remove(path)",
            "        probe = path\n        with open(path, \"ab\") as _:\n            pass\n        if not probe.endswith(\".torrent\") or os.path.basename(probe) != \".torrent\":\n            os.remove(path)")]},
         ["create.v1.*.dir", "create.v2.flat2.default"]),
        ("rename: existence guard uses the wrong path", {"commands": [(
            "    if os.path.exists(new_path):\n        raise FileExistsError", "    if os.path.exists(name + \".torrent\"):\n        raise FileExistsError")]},
         ["rename.*"]),
    ]


if __name__ == "__main__":
    from harness import common
    raise SystemExit(common.main("harness.c18"))
