"""Shared edit world for C07 / C17 / C06: base metafiles with symbolic key
presence, edit requests over opaque strings, expected outcomes."""
from symx.core import Unsupported
from symx.abuf import ABuf
from symx.afs import AFS
from symx.loader import World, BenTok, ben_equal, ben_copy
from symx.ostr import OStr

FIELDS = ["announce", "url-list", "httpseeds", "comment", "source", "private"]
TOP = {"announce": "announce", "url-list": "url-list", "httpseeds": "httpseeds"}
INFO = {"comment": "comment", "source": "source", "private": "private"}
MPATH = "/t/m.torrent"


def tok(name, n=None):
    return ABuf.of([("G", ("tok", name), 0, n if n is not None else 20)])


def base_meta(E, version, force=None):
    """A decoded, canonically ordered metafile of the given version; presence of
    each optional key is a forked choice (or forced)."""
    force = force or {}

    def has(key):
        if key in force:
            return force[key]
        return E.choice("base.%s" % key, 2) == 1
    meta = {}
    if has("announce"):
        a = OStr("base.announce", nonempty=True)
        meta["announce"] = a
        meta["announce-list"] = [[a]]
    if has("comment-top"):
        meta["comment"] = OStr("base.topcomment", nonempty=True)
    meta["created by"] = "someone"
    meta["creation date"] = 1234567890
    if has("httpseeds"):
        meta["httpseeds"] = [OStr("base.httpseed", nonempty=True)]
    info = {}
    if has("comment"):
        info["comment"] = OStr("base.comment", nonempty=True)
    # payload names are chosen adversarially: files and directories called like the editable fields
    big = 70000 if has("layers") else 30000
    if version in (2, 3):
        info["file tree"] = {"announce": {"": {"length": big, "pieces root": tok("root-a", 32)}},
                             "comment": {"": {"length": 40000 if big > 32768 else 5, "pieces root": tok("root-b", 32)}},
                             "private": {"source": {"": {"length": 7, "pieces root": tok("root-c", 32)}},
                                         "url-list": {"": {"length": 0}}}}
    if version in (1, 3):
        info["files"] = [{"length": big, "path": ["announce"]}, {"length": 40000 if big > 32768 else 5, "path": ["comment"]},
                         {"length": 7, "path": ["private", "source"]}, {"length": 0, "path": ["private", "url-list"]}]
    if version in (2, 3):
        info["meta version"] = 2
    info["name"] = "name"
    info["piece length"] = 32768
    if version in (1, 3):
        info["pieces"] = tok("pieces", 60)
    if has("private"):
        info["private"] = 1
    if has("source"):
        info["source"] = OStr("base.source", nonempty=True)
    meta["info"] = info
    if version in (2, 3):
        if big > 32768:
            # two multi-piece files; the input is canonical: root-a sorts before root-b as bytes
            E.assume(tok("root-a", 32) < tok("root-b", 32))
            meta["piece layers"] = {tok("root-a", 32): tok("layer-a", 96), tok("root-b", 32): tok("layer-b", 64)}
        else:
            meta["piece layers"] = {}
    if has("url-list"):
        meta["url-list"] = [OStr("base.webseed", nonempty=True)]
    return meta


VALUE_KINDS = ["unnamed", "cleared", "str", "list1", "list2"]


def make_value(E, field, kind, tag=""):
    if kind == "unnamed":
        return None
    if kind == "cleared":
        return ""
    if kind == "str":
        return OStr("req%s.%s" % (tag, field))
    if kind == "list1":
        return [OStr("req%s.%s.0" % (tag, field), nonempty=True)]
    if kind == "list2":
        return [OStr("req%s.%s.0" % (tag, field), nonempty=True), OStr("req%s.%s.1" % (tag, field), nonempty=True)]
    if kind == "true":
        return True
    if kind == "false":
        return False
    raise ValueError(kind)


def request(E, kinds, tag=""):
    """kinds: {field: kind}; fields not mentioned are left out of the dict."""
    return {f: make_value(E, f, k, tag) for f, k in kinds.items()}


class Expect:
    """What the edit must do to one field, judged after the call (the opaque
    strings have been observed by then)."""
    UNTOUCHED, REMOVED, SET = "untouched", "removed", "set"

    def __init__(self, field, value, cli=False):
        self.field = field
        self.value = value
        self.cli = cli

    def outcome(self):
        v, f = self.value, self.field
        if v is None:
            return (self.UNTOUCHED, None)
        if f == "private":
            if v is True:
                return (self.SET, 1)
            if v is False:
                # library: an explicit False is not 'set to true'; CLI: store_true default = flag not given
                return (self.UNTOUCHED, None)
            if isinstance(v, str) and v == "":
                return (self.REMOVED, None)
            return ("unjudged", None)
        if isinstance(v, (str, OStr)):
            if v == "":
                return (self.REMOVED, None)
            if f in TOP:
                words = v.split()
                if not words:
                    return ("unjudged", None)        # whitespace-only request: nothing sensible to demand
                return (self.SET, list(words))
            return (self.SET, v)
        if isinstance(v, list):
            return (self.SET, list(v))
        return ("unjudged", None)


def named_keys(field):
    if field == "announce":
        return [("top", "announce"), ("top", "announce-list")]
    if field in TOP:
        return [("top", TOP[field])]
    return [("info", INFO[field])]


def check_edit(E, tag, before, after, expects):
    """before/after: decoded metafiles; expects: list of Expect (one per field, last write wins)."""
    named = set()
    only_top = True
    for ex in expects:
        kind, val = ex.outcome()
        if kind in ("unjudged", "unobserved"):
            named.update(named_keys(ex.field))
            if ex.field in INFO:
                only_top = False
            continue
        if kind == Expect.UNTOUCHED:
            continue
        named.update(named_keys(ex.field))
        if ex.field in INFO:
            only_top = False
        where = after if ex.field in TOP else after.get("info", {})
        key = TOP.get(ex.field) or INFO[ex.field]
        if kind == Expect.REMOVED:
            E.check(key not in where, tag + ".cleared-removed", "field %s cleared but key %r still present" % (ex.field, key))
        else:
            if ex.field == "announce":
                E.check("announce" in after and after["announce"] == val[0], tag + ".set.announce",
                        "announce is %r, requested %r" % (after.get("announce"), val[0]))
                E.check(ben_equal(after.get("announce-list"), [val]), tag + ".set.announce-list",
                        "announce-list is %r, requested %r" % (after.get("announce-list"), [val]))
            else:
                E.check(key in where and ben_equal(where[key], val), tag + ".set." + ex.field,
                        "%s is %r, requested %r" % (key, where.get(key), val))
    # everything not named is byte-for-byte what it was (values and relative order)
    b_top = [(k, v) for k, v in before.items() if k != "info" and ("top", k) not in named]
    a_top = [(k, v) for k, v in after.items() if k != "info" and ("top", k) not in named]
    E.check(ben_equal(dict(b_top), dict(a_top)), tag + ".unnamed-top-unchanged",
            "top-level keys before %r, after %r" % ([k for k, _ in b_top], [k for k, _ in a_top]))
    b_info = [(k, v) for k, v in before["info"].items() if ("info", k) not in named]
    a_info = [(k, v) for k, v in after.get("info", {}).items() if ("info", k) not in named]
    E.check(ben_equal(dict(b_info), dict(a_info)), tag + ".unnamed-info-unchanged",
            "info keys before %r, after %r" % ([k for k, _ in b_info], [k for k, _ in a_info]))
    if only_top:
        E.check(ben_equal(before["info"], after.get("info")), tag + ".info-hash-unchanged",
                "only trackers/seeds were named but the info dictionary changed")


def file_obj(fs, path=MPATH):
    """Decoded object stored at path, or a marker."""
    node = fs.files.get(path)
    if node is None:
        return ("MISSING",)
    segs = node.content.segs
    if len(segs) == 1 and segs[0][0] == "T" and isinstance(segs[0][1], BenTok):
        return segs[0][1].obj
    if not segs:
        return ("EMPTY",)
    return ("PARTIAL", segs)
