"""C17: an interrupted or failed edit never loses or truncates the metafile."""
import os
import types

from symx.core import Unsupported, Crash, tb
from symx.afs import AFS, FaultPlan
from symx.loader import World, BenTok, ben_equal, ben_copy
from symx.ostr import OStr

from harness import editw as ew
from harness.editw import MPATH
from harness import creators as cr
import refconc

PROPERTY = "C17"
MODULES = ["edit"]
FAULTS = ["crash", "eperm", "enospc", "short", "shortret"]
ASSUMPTIONS = [
    "fault model on the abstract filesystem: whatever mutating calls edit_torrent makes (remove/open/write/rename/"
    "replace/mkdir/copy) are fault points; one fault per run at a symbolic operation index: process death before the "
    "operation, PermissionError, ENOSPC (a write has stored a strict prefix), short write followed by death, and - only for "
    "files opened unbuffered - a short write reported through the return value",
    "open(path,'wb') truncates at open; rename/replace are atomic (POSIX); durability across power loss (fsync ordering) "
    "is outside the model",
    "NEW = the metafile a fault-free run of the same request writes (computed on a twin world in the same path)",
    "unencodable request value = an object pyben's type dispatch rejects (float); encoder raises before any byte is written (A-pyben)",
]
WITNESSES = ["fault fired before first operation", "fault fired at last operation", "no fault fired"]


def BOUNDS(tier):
    return {"requests": "each of the six fields set / cleared, all six at once, an unencodable value",
            "base": "v1 and hybrid metafiles with optional keys present/absent (forked)",
            "faults": "one fault of each kind at every mutating operation index (symbolic), plus none",
            "outside": "multiple faults in one run; power-loss durability; concurrent writers"}


REQS = {
    "comment": {"comment": "str"}, "clear-comment": {"comment": "cleared"}, "announce": {"announce": "list2"},
    "private": {"private": "true"}, "url-list": {"url-list": "str"},
    "all": {"announce": "str", "url-list": "list1", "httpseeds": "list2", "comment": "str", "source": "str", "private": "true"},
}


def jobs(tier):
    out = []
    for name in REQS:
        for kind in FAULTS:
            for version in ((1,) if tier == "quick" and name not in ("all", "comment") else (1, 3)):
                out.append(("%s.%s.v%d" % (name, kind, version), "job_fault", dict(req=name, kind=kind, version=version)))
    for kind in FAULTS:
        out.append(("comment.%s.v1.hardlinked" % kind, "job_fault", dict(req="comment", kind=kind, version=1, linked=True)))
    out.append(("unencodable.v1", "job_unencodable", dict(version=1)))
    out.append(("unencodable.v3", "job_unencodable", dict(version=3)))
    return out


def _force(req):
    touched = {"announce": "announce", "url-list": "url-list", "httpseeds": "httpseeds", "comment": "comment",
               "source": "source", "private": "private"}
    force = {k: False for k in ("announce", "comment-top", "httpseeds", "comment", "private", "source", "url-list")}
    for f in req:
        force.pop(touched[f], None)
    return force


def _run(w, req):
    w.mod("edit").edit_torrent(MPATH, dict(req))


def job_fault(E, req, kind, version, linked=False, _mutants=None):
    kinds = REQS[req]
    base = ew.base_meta(E, version, _force(kinds))
    request = ew.request(E, kinds)
    # twin: fault-free run defines NEW and the number of mutating operations
    fs0 = AFS()
    fs0.add_token(MPATH, BenTok(ben_copy(base)))
    if linked:
        fs0.files["/t/second-name.torrent"] = fs0.files[MPATH]
    w0 = World(fs0, mutants=_mutants)
    try:
        _run(w0, request)
        new = ew.file_obj(fs0)
        nops = fs0.nops
    except Unsupported:
        raise
    except Exception as ex:  # noqa: BLE001
        new, nops = None, fs0.nops
    if new is not None and not E.check(isinstance(new, dict), "C17.fault-free-complete", "fault-free edit left %r" % (new,)):
        return
    fs = AFS()
    fs.add_token(MPATH, BenTok(ben_copy(base)))
    if linked:
        fs.files["/t/second-name.torrent"] = fs.files[MPATH]      # the metafile has a second (hard linked) name
    at = E.int("fault_at", 0, nops)
    fs.fault = FaultPlan(at, kind)
    w = World(fs, mutants=_mutants)
    raised = None
    try:
        _run(w, request)
    except Crash:
        raised = "crash"
    except Unsupported:
        raise
    except Exception as ex:  # noqa: BLE001
        raised = "error:%s" % type(ex).__name__
    E.note("ops", [list(map(str, x)) for x in fs.log][:12])
    got = ew.file_obj(fs)
    is_old = isinstance(got, dict) and ben_equal(got, base)
    is_new = isinstance(got, dict) and new is not None and ben_equal(got, new)
    E.check(is_old or is_new, "C17.complete-after-fault",
            "after %s at operation %s of %r the metafile path holds %s" % (kind, fs.fault.fired, [x[0] for x in fs.log], _show(got)))
    if raised and raised.startswith("error"):
        E.check(is_old or is_new, "C17.complete-after-error")
    if fs.fault.fired is None:
        E.witness("no fault fired")
        E.check(is_new if new is not None else is_old, "C17.no-fault-result")
    else:
        if fs.fault.fired[0] == 0:
            E.witness("fault fired before first operation")
        if fs.fault.fired[0] == nops - 1:
            E.witness("fault fired at last operation")


def _show(got):
    if isinstance(got, dict):
        return "a complete but different metafile"
    return repr(got)[:80]


def job_unencodable(E, version, _mutants=None):
    base = ew.base_meta(E, version, _force({"comment": 1}))
    fs = AFS()
    fs.add_token(MPATH, BenTok(ben_copy(base)))
    w = World(fs, mutants=_mutants)
    raised = None
    try:
        _run(w, {"comment": 1.5})
    except Unsupported:
        raise
    except Exception as ex:  # noqa: BLE001
        raised = type(ex).__name__
    got = ew.file_obj(fs)
    E.check(isinstance(got, dict) and (ben_equal(got, base) or raised is None), "C17.unencodable-keeps-old",
            "request with an unencodable value (%s raised) left %s" % (raised, _show(got)))
    for k in WITNESSES:
        E.witnesses.setdefault(k, True)


# ------------------------------------------------------------------ concrete replay

def replay(params, model, notes, workdir, seed):
    """Replay on the real package with the real filesystem calls of edit.py
    intercepted at the same operation index (os.remove/os.replace/os.rename and
    the builtin open used by pyben for writing)."""
    import builtins
    import io
    import pyben
    from harness import c07
    version = params["version"]
    base = c07.conc_base(version, model)
    mpath = os.path.join(workdir, "m.torrent")
    old_bytes = refconc.bencode(base)
    with open(mpath, "wb") as f:
        f.write(old_bytes)
    if params.get("linked"):
        os.link(mpath, os.path.join(workdir, "second-name.torrent"))
    mods = cr.real_torrentfile()
    ed = mods["torrentfile.edit"]
    if "req" not in params:
        try:
            ed.edit_torrent(mpath, {"comment": 1.5})
        except Exception:  # noqa: BLE001
            pass
        ok = os.path.exists(mpath) and open(mpath, "rb").read() == old_bytes
        return [] if ok else ["C17.unencodable-keeps-old"]
    kinds = REQS[params["req"]]
    req = {f: c07.conc_value(k, f, int(model.get("req.%s.words" % f, 1))) for f, k in kinds.items()}
    for f, k in kinds.items():
        if k == "str" and int(model.get("req.%s.nonempty" % f, 1)) == 0:
            req[f] = ""
    # fault-free twin
    twin = os.path.join(workdir, "twin.torrent")
    with open(twin, "wb") as f:
        f.write(old_bytes)
    try:
        ed.edit_torrent(twin, dict(req))
        new_bytes = open(twin, "rb").read()
    except Exception:  # noqa: BLE001
        new_bytes = None
    at, kind = int(model["fault_at"]), params["kind"]
    counter = {"n": 0}

    class Died(BaseException):
        pass

    def point(name, path):
        k = counter["n"]
        counter["n"] += 1
        if k != at:
            return None
        if kind == "crash" or (kind == "short" and name != "write"):
            raise Died()
        if kind == "eperm":
            raise PermissionError(13, "Permission denied", path)
        if kind == "enospc" and name != "write":
            raise OSError(28, "No space left on device", path)
        if kind == "shortret" and name != "write":
            return None
        if kind in ("enospc", "short") and name not in ("write", "copy-write"):
            if kind == "enospc":
                raise OSError(28, "No space left on device", path)
            raise Died()
        return kind

    real_open, real_remove, real_replace, real_rename = builtins.open, os.remove, os.replace, os.rename

    class WFile:
        def __init__(self, f, path):
            self.f, self.path = f, path

        def write(self, data):
            r = point("write", self.path)
            if r == "shortret" and not getattr(self, "raw", False):
                r = None
            if r == "shortret":
                n = max(0, len(data) // 2)
                self.f.write(bytes(data)[:n])
                self.f.flush()
                return n
            if r in ("enospc", "short"):
                self.f.write(bytes(data)[:max(0, len(data) // 2)])
                self.f.flush()
                if r == "enospc":
                    raise OSError(28, "No space left on device", self.path)
                raise Died()
            return self.f.write(data)

        def __enter__(self):
            return self

        def __exit__(self, *a):
            self.f.close()

        def __getattr__(self, n):
            return getattr(self.f, n)

    def fake_open(path, mode="r", *a, **k):
        if isinstance(path, (str, os.PathLike)) and str(path).startswith(workdir) and any(c in mode for c in "wax+"):
            point("open-" + mode.replace("b", ""), path)
            raw = k.get("buffering", a[0] if a else -1) == 0
            wf = WFile(real_open(path, mode, *a, **k), path)
            wf.raw = raw
            return wf
        return real_open(path, mode, *a, **k)

    def fake_remove(p):
        point("remove", p)
        return real_remove(p)

    def fake_replace(a, b):
        point("rename", a)
        return real_replace(a, b)

    def fake_rename(a, b):
        point("rename", a)
        return real_rename(a, b)

    import shutil as _sh
    real_copyfile, real_copy, real_copy2 = _sh.copyfile, _sh.copy, _sh.copy2

    def fake_copyfile(src, dst, **k):
        # open-for-write (truncate) and fill are two fault points, as in the model
        point("copy", dst)
        with real_open(dst, "wb"):
            pass
        r = point("copy-write", dst)
        data = real_open(src, "rb").read()
        if r in ("enospc", "short"):
            with real_open(dst, "wb") as f:
                f.write(data[:len(data) // 2])
            if r == "enospc":
                raise OSError(28, "No space left on device", dst)
            raise Died()
        with real_open(dst, "wb") as f:
            f.write(data)
        return dst
    _sh.copyfile = _sh.copy = _sh.copy2 = fake_copyfile
    builtins.open, os.remove, os.replace, os.rename = fake_open, fake_remove, fake_replace, fake_rename
    os.unlink = fake_remove
    try:
        try:
            ed.edit_torrent(mpath, dict(req))
        except Died:
            pass
        except Exception:  # noqa: BLE001
            pass
    finally:
        builtins.open, os.remove, os.replace, os.rename = real_open, real_remove, real_replace, real_rename
        os.unlink = real_remove
        _sh.copyfile, _sh.copy, _sh.copy2 = real_copyfile, real_copy, real_copy2
    if not os.path.exists(mpath):
        return ["C17.complete-after-fault (metafile missing)"]
    got = real_open(mpath, "rb").read()
    if got == old_bytes or (new_bytes is not None and got == new_bytes):
        return []
    return ["C17.complete-after-fault (metafile holds %d bytes, neither old nor new)" % len(got)]


def canaries(tier):
    return [
        ("edit: metafile removed before the new one is written", {"edit": [(
            "    meta[\"info\"] = info\n", "    meta[\"info\"] = info\n    os.remove(metafile)\n")]},
         ["comment.crash.v1", "all.eperm.v1"]),
    ]


if __name__ == "__main__":
    from harness import common
    raise SystemExit(common.main("harness.c17"))
