"""C17: an interrupted or failed edit never loses or truncates the metafile."""
import os
import types

from symx.core import Unsupported, Crash, tb
from symx.afs import AFS, FaultPlan
from symx.loader import World, BenTok, ben_equal, ben_copy
from symx.ostr import OStr

from harness import editw as ew
from harness.editw import MPATH
from harness import creators as cr
import refconc

PROPERTY = "C17"
MODULES = ["edit", "commands"]
FAULTS = ["crash", "eperm", "enospc", "short", "shortret"]
ASSUMPTIONS = [
    "fault model on the abstract filesystem: whatever mutating calls edit_torrent makes (remove/open/write/rename/"
    "replace/mkdir/copy) are fault points; one fault per run at a symbolic operation index: process death before the "
    "operation, PermissionError, ENOSPC (a write has stored a strict prefix), short write followed by death, and - only for "
    "files opened unbuffered - a short write reported through the return value",
    "open(path,'wb') truncates at open; rename/replace are atomic (POSIX); durability across power loss (fsync ordering) "
    "is outside the model",
    "NEW = the metafile a fault-free run of the same request writes (computed on a twin world in the same path)",
    "unencodable request value = an object pyben's type dispatch rejects (float); encoder raises before any byte is written (A-pyben)",
]
WITNESSES = ["fault fired before first operation", "fault fired at last operation", "no fault fired"]


def BOUNDS(tier):
    return {"requests": "each of the six fields set / cleared, all six at once, an unencodable value",
            "base": "v1 and hybrid metafiles with optional keys present/absent (forked)",
            "faults": "one fault of each kind at every mutating operation index (symbolic), plus none",
            "outside": "multiple faults in one run; power-loss durability; concurrent writers"}


REQS = {
    "comment": {"comment": "str"}, "clear-comment": {"comment": "cleared"}, "announce": {"announce": "list2"},
    "private": {"private": "true"}, "url-list": {"url-list": "str"},
    "all": {"announce": "str", "url-list": "list1", "httpseeds": "list2", "comment": "str", "source": "str", "private": "true"},
}


def jobs(tier):
    out = []
    for name in REQS:
        for kind in FAULTS:
            for version in ((1,) if tier == "quick" and name not in ("all", "comment") else (1, 3)):
                out.append(("%s.%s.v%d" % (name, kind, version), "job_fault", dict(req=name, kind=kind, version=version)))
    for kind in FAULTS:
        out.append(("comment.%s.v1.hardlinked" % kind, "job_fault", dict(req="comment", kind=kind, version=1, linked=True)))
    for version in (1, 3):
        out.append(("edit-after-killed-edit.v%d" % version, "job_after_killed", dict(version=version, killed=True)))
        out.append(("edit-after-killed-mid-write.v%d.cli" % version, "job_after_killed", dict(version=version, killed=True, kind="short", route2="cli")))
    out.append(("edit-after-killed-edit.v1.cli", "job_after_killed", dict(version=1, killed=True, kind="crash", route2="cli")))
    out.append(("edit-after-killed-mid-write.v1", "job_after_killed", dict(version=1, killed=True, kind="short", route2="lib")))
    for n in (255, 254, 251, 250):
        out.append(("long-name-%d.v1" % n, "job_long_name", dict(version=1, namelen=n)))
    out.append(("unencodable.v1", "job_unencodable", dict(version=1)))
    out.append(("unencodable.v3", "job_unencodable", dict(version=3)))
    return out


def _force(req):
    touched = {"announce": "announce", "url-list": "url-list", "httpseeds": "httpseeds", "comment": "comment",
               "source": "source", "private": "private"}
    force = {k: False for k in ("announce", "comment-top", "httpseeds", "comment", "private", "source", "url-list")}
    for f in req:
        force.pop(touched[f], None)
    return force


def _run(w, req):
    w.mod("edit").edit_torrent(MPATH, dict(req))


def job_fault(E, req, kind, version, linked=False, _mutants=None):
    kinds = REQS[req]
    base = ew.base_meta(E, version, _force(kinds))
    request = ew.request(E, kinds)
    # twin: fault-free run defines NEW and the number of mutating operations
    fs0 = AFS()
    fs0.add_token(MPATH, BenTok(ben_copy(base)))
    if linked:
        fs0.files["/t/second-name.torrent"] = fs0.files[MPATH]
    w0 = World(fs0, mutants=_mutants)
    try:
        _run(w0, request)
        new = ew.file_obj(fs0)
        nops = fs0.nops
    except Unsupported:
        raise
    except Exception as ex:  # noqa: BLE001
        new, nops = None, fs0.nops
    if new is not None and not E.check(isinstance(new, dict), "C17.fault-free-complete", "fault-free edit left %r" % (new,)):
        return
    fs = AFS()
    fs.add_token(MPATH, BenTok(ben_copy(base)))
    if linked:
        fs.files["/t/second-name.torrent"] = fs.files[MPATH]      # the metafile has a second (hard linked) name
    at = E.int("fault_at", 0, nops)
    fs.fault = FaultPlan(at, kind)
    w = World(fs, mutants=_mutants)
    raised = None
    try:
        _run(w, request)
    except Crash:
        raised = "crash"
    except Unsupported:
        raise
    except Exception as ex:  # noqa: BLE001
        raised = "error:%s" % type(ex).__name__
    E.note("ops", [list(map(str, x)) for x in fs.log][:12])
    got = ew.file_obj(fs)
    is_old = isinstance(got, dict) and ben_equal(got, base)
    is_new = isinstance(got, dict) and new is not None and ben_equal(got, new)
    E.check(is_old or is_new, "C17.complete-after-fault",
            "after %s at operation %s of %r the metafile path holds %s" % (kind, fs.fault.fired, [x[0] for x in fs.log], _show(got)))
    if raised and raised.startswith("error"):
        E.check(is_old or is_new, "C17.complete-after-error")
    if fs.fault.fired is None:
        E.witness("no fault fired")
        E.check(is_new if new is not None else is_old, "C17.no-fault-result")
    else:
        if fs.fault.fired[0] == 0:
            E.witness("fault fired before first operation")
        if fs.fault.fired[0] == nops - 1:
            E.witness("fault fired at last operation")


def _show(got):
    if isinstance(got, dict):
        return "a complete but different metafile"
    return repr(got)[:80]


def job_after_killed(E, version, killed=True, kind="crash", route2="lib", _mutants=None):
    """An edit is killed at an arbitrary operation (whatever it leaves behind - such as its scratch file - stays),
    then a later, undisturbed edit by a new process: the metafile must be the complete result of that edit.
    Encoded lengths are solver variables, so 'the later result is shorter than what was left behind' is covered."""
    from symx.loader import ben_len
    force = {k: True for k in ("announce", "httpseeds", "comment", "private", "source", "url-list")}
    force["comment-top"] = False
    force["layers"] = True
    base = ew.base_meta(E, version, force)
    fs = AFS()
    w1 = World(fs, mutants=_mutants)
    w1.track_lengths = True
    stored = ben_copy(base)
    fs.add_token(MPATH, BenTok(stored), size=ben_len(stored, w1))
    req1 = ew.request(E, {"comment": "str"}, tag="k1")
    req2 = ew.request(E, {"comment": "str"}, tag="k2")
    for r in (req1, req2):
        for v in r.values():
            if isinstance(v, OStr):
                v._nonempty = True
    fs.fault = FaultPlan(E.int("fault_at", 0, 6), kind)
    try:
        _run(w1, req1)
    except Crash:
        E.witnesses["first edit killed"] = True
    except Unsupported:
        raise
    except Exception:  # noqa: BLE001
        return
    fs.fault, fs.dead, fs._handles = None, False, []
    mid = ew.file_obj(fs)
    if not isinstance(mid, dict):
        return              # reported by the fault jobs
    w2 = World(fs, mutants=_mutants)
    w2.track_lengths = True
    w2.benlens = w1.benlens
    try:
        if route2 == "cli":
            import types as _types
            w2.mod("commands").edit(_types.SimpleNamespace(metafile=MPATH, url_list=None, httpseeds=None, announce=None, source=None,
                                                           private=False, comment=req2["comment"]))
        else:
            _run(w2, req2)
    except Unsupported:
        raise
    except Exception as ex:  # noqa: BLE001
        E.fail("C17.after-killed-edit.no-exception", "%s: %s" % (type(ex).__name__, ex))
        return
    got = ew.file_obj(fs)
    if E.check(isinstance(got, dict), "C17.after-killed-edit.complete",
               "an undisturbed edit after a killed one left %s at the metafile path" % (_show(got),)):
        E.check(got.get("info", {}).get("comment") is req2["comment"], "C17.after-killed-edit.is-the-edit")
    for k in WITNESSES:
        E.witnesses.setdefault(k, True)


def job_long_name(E, version, namelen, _mutants=None):
    """A metafile whose file name is at (or just below) the 255-byte limit of a directory entry: an edit that fails -
    because a value cannot be encoded, or because no scratch name fits - leaves the complete original; one that
    succeeds leaves the complete result."""
    path = "/t/" + "m" * (namelen - 8) + ".torrent"
    base = ew.base_meta(E, version, _force({"comment": 1}))
    fs = AFS()
    fs.add_token(path, BenTok(ben_copy(base)))
    w = World(fs, mutants=_mutants)
    bad = E.choice("unencodable", 2)
    req = {"comment": 1.5} if bad else ew.request(E, {"comment": "str"})
    raised = None
    try:
        w.mod("edit").edit_torrent(path, dict(req))
    except Unsupported:
        raise
    except Exception as ex:  # noqa: BLE001
        raised = type(ex).__name__
    got = ew.file_obj(fs, path)
    if raised is not None:
        E.check(isinstance(got, dict) and ben_equal(got, base), "C17.long-name.failed-edit-keeps-original",
                "edit of a %d-byte file name raised %s and left %s" % (namelen, raised, _show(got)))
    else:
        E.check(isinstance(got, dict), "C17.long-name.complete", "edit of a %d-byte file name left %s" % (namelen, _show(got)))
    for k in WITNESSES:
        E.witnesses.setdefault(k, True)


def job_unencodable(E, version, _mutants=None):
    base = ew.base_meta(E, version, _force({"comment": 1}))
    fs = AFS()
    fs.add_token(MPATH, BenTok(ben_copy(base)))
    w = World(fs, mutants=_mutants)
    raised = None
    try:
        _run(w, {"comment": 1.5})
    except Unsupported:
        raise
    except Exception as ex:  # noqa: BLE001
        raised = type(ex).__name__
    got = ew.file_obj(fs)
    E.check(isinstance(got, dict) and (ben_equal(got, base) or raised is None), "C17.unencodable-keeps-old",
            "request with an unencodable value (%s raised) left %s" % (raised, _show(got)))
    for k in WITNESSES:
        E.witnesses.setdefault(k, True)


# ------------------------------------------------------------------ concrete replay

def _replay_killed(params, model, workdir):
    """First edit killed at operation `fault_at` (everything it did up to there stays on the disk, nothing after),
    second edit undisturbed; string lengths as the solver chose them."""
    import subprocess
    import sys
    import json
    from harness import c07

    def L(name, default=5):
        return max(1, int(model.get("benlen.%s" % name, default + 2)) - 2)
    version = params["version"]
    base = c07.conc_base(version, {"base.%s" % k: 1 for k in ("announce", "httpseeds", "comment", "private", "source", "url-list")})
    base["info"]["comment"] = "c" * L("base.comment")
    mpath = os.path.join(workdir, "m.torrent")
    with open(mpath, "wb") as f:
        f.write(refconc.bencode(base))
    repo = os.environ.get("VERIF_REAL_REPO") or os.environ.get("VERIF_REPO", "/repo")
    at = int(model.get("fault_at", 0))
    # the killed edit runs in a child process that really dies (os._exit) at its at-th mutating filesystem call
    child = (
        "import sys, os, builtins\n"
        "sys.path.insert(0, %r)\n"
        "n = [0]\n"
        "KIND = %r\n"
        "def point(f=None, d=None):\n"
        "    if n[0] == %d:\n"
        "        if KIND == 'short' and f is not None:\n"
        "            f.write(d[:len(d) // 2]); f.flush()\n"
        "        os._exit(9)\n"
        "    n[0] += 1\n"
        "ro, rr, rp, rn, oo = builtins.open, os.remove, os.replace, os.rename, os.open\n"
        "class W:\n"
        "    def __init__(s, f): s.f = f; s.p = []\n"
        "    def write(s, d):\n"
        "        if len(d) >= 4096: s.flush(); point(s.f, d); s.f.write(d); return len(d)\n"
        "        s.p.append(bytes(d)); return len(d)\n"
        "    def flush(s):\n"
        "        if s.p: d = b''.join(s.p); s.p = []; point(s.f, d); s.f.write(d)\n"
        "    def close(s): s.flush(); s.f.close()\n"
        "    def fileno(s): return s.f.fileno()\n"
        "    def __enter__(s): return s\n"
        "    def __exit__(s, *a): s.close()\n"
        "    def __getattr__(s, k): return getattr(s.f, k)\n"
        "def fo(p, m='r', *a, **k):\n"
        "    if any(c in m for c in 'wax+'): point(); return W(ro(p, m, buffering=0))\n"
        "    return ro(p, m, *a, **k)\n"
        "def foo(p, fl, mode=0o777, **k): point(); return oo(p, fl, mode, **k)\n"
        "def fdo(fd, m='r', b=-1, **k): return W(os.__dict__['_real_fdopen'](fd, m, 0))\n"
        "os.__dict__['_real_fdopen'] = os.fdopen\n"
        "def w1(f):\n"
        "    def g(*a, **k): point(); return f(*a, **k)\n"
        "    return g\n"
        "builtins.open = fo; os.open = foo; os.fdopen = fdo; os.remove = os.unlink = w1(rr); os.replace = w1(rp); os.rename = w1(rn)\n"
        "from torrentfile.edit import edit_torrent\n"
        "edit_torrent(sys.argv[1], {'comment': sys.argv[2]})\n" % (repo, params.get("kind", "crash"), at))
    subprocess.run([sys.executable, "-c", child, mpath, "k" * L("reqk1.comment")], capture_output=True, cwd=workdir)
    if not os.path.exists(mpath):
        return ["C17.complete-after-fault (metafile missing after the killed edit)"]
    mods = cr.real_torrentfile()
    want2 = "n" * L("reqk2.comment")
    try:
        if params.get("route2") == "cli":
            import types as _types
            import io as _io
            import contextlib as _cl
            with _cl.redirect_stdout(_io.StringIO()):
                mods["torrentfile.commands"].edit(_types.SimpleNamespace(metafile=mpath, url_list=None, httpseeds=None, announce=None,
                                                                        source=None, private=False, comment=want2))
        else:
            mods["torrentfile.edit"].edit_torrent(mpath, {"comment": want2})
    except Exception as ex:  # noqa: BLE001
        data = open(mpath, "rb").read() if os.path.exists(mpath) else b""
        try:
            refconc.bdecode_strict(data)
        except refconc.BencodeError:
            return ["C17.after-killed-edit.complete (second edit raised %s and the metafile holds %d undecodable bytes)" % (type(ex).__name__, len(data))]
        return ["C17.after-killed-edit.no-exception: %s: %s" % (type(ex).__name__, ex)]
    data = open(mpath, "rb").read()
    try:
        got = refconc.bdecode_strict(data)
    except refconc.BencodeError as ex:
        return ["C17.after-killed-edit.complete (%d bytes: %s)" % (len(data), ex)]
    return [] if got.get(b"info", {}).get(b"comment") == want2.encode() else ["C17.after-killed-edit.is-the-edit"]


def replay(params, model, notes, workdir, seed):
    """Replay on the real package with the real filesystem calls of edit.py
    intercepted at the same operation index (os.remove/os.replace/os.rename and
    the builtin open used by pyben for writing)."""
    import builtins
    import io
    import pyben
    from harness import c07
    if params.get("killed"):
        return _replay_killed(params, model, workdir)
    if "namelen" in params:
        from harness import c07 as _c07
        base = _c07.conc_base(params["version"], model)
        mpath = os.path.join(workdir, "m" * (params["namelen"] - 8) + ".torrent")
        old_bytes = refconc.bencode(base)
        with open(mpath, "wb") as f:
            f.write(old_bytes)
        mods = cr.real_torrentfile()
        req = {"comment": 1.5} if int(model.get("unencodable", 0)) else {"comment": "changed"}
        raised = None
        try:
            mods["torrentfile.edit"].edit_torrent(mpath, dict(req))
        except Exception as ex:  # noqa: BLE001
            raised = ex
        if not os.path.exists(mpath):
            return ["C17.long-name (metafile gone after %r)" % (raised,)]
        got = open(mpath, "rb").read()
        if raised is not None:
            return [] if got == old_bytes else ["C17.long-name.failed-edit-keeps-original"]
        try:
            refconc.bdecode_strict(got)
        except refconc.BencodeError as ex:
            return ["C17.long-name.complete (%s)" % ex]
        return []
    version = params["version"]
    base = c07.conc_base(version, model)
    mpath = os.path.join(workdir, "m.torrent")
    old_bytes = refconc.bencode(base)
    with open(mpath, "wb") as f:
        f.write(old_bytes)
    if params.get("linked"):
        os.link(mpath, os.path.join(workdir, "second-name.torrent"))
    mods = cr.real_torrentfile()
    ed = mods["torrentfile.edit"]
    if "req" not in params:
        try:
            ed.edit_torrent(mpath, {"comment": 1.5})
        except Exception:  # noqa: BLE001
            pass
        ok = os.path.exists(mpath) and open(mpath, "rb").read() == old_bytes
        return [] if ok else ["C17.unencodable-keeps-old"]
    kinds = REQS[params["req"]]
    req = {f: c07.conc_value(k, f, int(model.get("req.%s.words" % f, 1))) for f, k in kinds.items()}
    for f, k in kinds.items():
        if k == "str" and int(model.get("req.%s.nonempty" % f, 1)) == 0:
            req[f] = ""
    # fault-free twin
    twin = os.path.join(workdir, "twin.torrent")
    with open(twin, "wb") as f:
        f.write(old_bytes)
    try:
        ed.edit_torrent(twin, dict(req))
        new_bytes = open(twin, "rb").read()
    except Exception:  # noqa: BLE001
        new_bytes = None
    at, kind = int(model["fault_at"]), params["kind"]
    counter = {"n": 0}

    class Died(BaseException):
        pass

    def point(name, path):
        k = counter["n"]
        counter["n"] += 1
        if k != at:
            return None
        if kind == "crash" or (kind == "short" and name != "write"):
            state["dead"] = True
            raise Died()
        if kind == "eperm":
            raise PermissionError(13, "Permission denied", path)
        if kind == "enospc" and name != "write":
            raise OSError(28, "No space left on device", path)
        if kind == "shortret" and name != "write":
            return None
        if kind in ("enospc", "short") and name not in ("write", "copy-write"):
            if kind == "enospc":
                raise OSError(28, "No space left on device", path)
            state["dead"] = True
            raise Died()
        return kind

    real_open, real_remove, real_replace, real_rename = builtins.open, os.remove, os.replace, os.rename

    state = {"dead": False}
    BUF = 4096

    def die():
        state["dead"] = True
        raise Died()

    class WFile:
        """The real file object, written through immediately (so that the disk always shows what the operating system
        has got), behind a buffer with io.BufferedWriter's discipline: small writes wait for flush / close."""

        def __init__(self, f, path):
            self.f, self.path = f, path
            self.pending = []

        def _emit(self, data):
            if state["dead"]:
                raise Died()
            r = point("write", self.path)
            if r == "shortret" and not getattr(self, "raw", False):
                r = None
            if r == "shortret":
                n = max(0, len(data) // 2)
                self.f.write(bytes(data)[:n])
                self.f.flush()
                return n
            if r in ("enospc", "short"):
                self.f.write(bytes(data)[:max(0, len(data) // 2)])
                self.f.flush()
                if r == "enospc":
                    raise OSError(28, "No space left on device", self.path)
                die()
            n = self.f.write(data)
            self.f.flush()
            return n

        def write(self, data):
            if getattr(self, "raw", False):
                return self._emit(data)
            if len(data) >= BUF:
                self.flush()
                return self._emit(data)
            self.pending.append(bytes(data))
            return len(data)

        def flush(self):
            if self.pending:
                data = b"".join(self.pending)
                self.pending = []
                self._emit(data)

        def close(self):
            try:
                if not state["dead"]:
                    self.flush()
            finally:
                self.f.close()

        def fileno(self):
            return self.f.fileno()

        def __enter__(self):
            return self

        def __exit__(self, *a):
            self.close()

        def __getattr__(self, n):
            return getattr(self.f, n)

    def fake_open(path, mode="r", *a, **k):
        if isinstance(path, (str, os.PathLike)) and str(path).startswith(workdir) and any(c in mode for c in "wax+"):
            if state["dead"]:
                raise Died()
            point("open-" + mode.replace("b", ""), path)
            raw = k.get("buffering", a[0] if a else -1) == 0
            wf = WFile(real_open(path, mode, *a, **dict(k, buffering=0) if "b" in mode else k), path)
            wf.raw = raw
            return wf
        return real_open(path, mode, *a, **k)

    real_os_open, real_fdopen = os.open, os.fdopen

    def fake_os_open(path, flags, mode=0o777, **k):
        if state["dead"]:
            raise Died()
        point("open-" + ("w" if flags & os.O_TRUNC else "r+"), path)
        return real_os_open(path, flags, mode, **k)

    import tempfile as _tf
    real_os_write, real_mkstemp = os.write, _tf.mkstemp

    def fake_os_write(fd, data):
        if state["dead"]:
            raise Died()
        r = point("write", "<fd>")
        if r == "shortret":
            return real_os_write(fd, bytes(data)[:max(0, len(data) // 2)])
        if r in ("enospc", "short"):
            real_os_write(fd, bytes(data)[:max(0, len(data) // 2)])
            if r == "enospc":
                raise OSError(28, "No space left on device")
            die()
        return real_os_write(fd, data)

    def fake_mkstemp(*a, **k):
        if state["dead"]:
            raise Died()
        point("open-x", "<mkstemp>")
        os.open = real_os_open          # mkstemp opens through os.open itself: one operation, not two
        try:
            return real_mkstemp(*a, **k)
        finally:
            os.open = fake_os_open

    def fake_fdopen(fd, mode="r", buffering=-1, **k):
        wf = WFile(real_fdopen(fd, mode, 0 if "b" in mode else buffering, **k), "<fd>")
        wf.raw = buffering == 0
        return wf

    def fake_remove(p):
        if state["dead"]:
            raise Died()
        point("remove", p)
        return real_remove(p)

    def fake_replace(a, b):
        if state["dead"]:
            raise Died()
        point("rename", a)
        return real_replace(a, b)

    def fake_rename(a, b):
        if state["dead"]:
            raise Died()
        point("rename", a)
        return real_rename(a, b)

    import shutil as _sh
    real_copyfile, real_copy, real_copy2 = _sh.copyfile, _sh.copy, _sh.copy2

    def fake_copyfile(src, dst, **k):
        # open-for-write (truncate) and fill are two fault points, as in the model
        point("copy", dst)
        with real_open(dst, "wb"):
            pass
        r = point("copy-write", dst)
        data = real_open(src, "rb").read()
        if r in ("enospc", "short"):
            with real_open(dst, "wb") as f:
                f.write(data[:len(data) // 2])
            if r == "enospc":
                raise OSError(28, "No space left on device", dst)
            raise Died()
        with real_open(dst, "wb") as f:
            f.write(data)
        return dst
    _sh.copyfile = _sh.copy = _sh.copy2 = fake_copyfile
    builtins.open, os.remove, os.replace, os.rename = fake_open, fake_remove, fake_replace, fake_rename
    os.unlink = fake_remove
    os.open, os.fdopen = fake_os_open, fake_fdopen
    os.write, _tf.mkstemp = fake_os_write, fake_mkstemp
    try:
        try:
            ed.edit_torrent(mpath, dict(req))
        except Died:
            pass
        except Exception:  # noqa: BLE001
            pass
    finally:
        builtins.open, os.remove, os.replace, os.rename = real_open, real_remove, real_replace, real_rename
        os.unlink = real_remove
        os.open, os.fdopen = real_os_open, real_fdopen
        os.write, _tf.mkstemp = real_os_write, real_mkstemp
        _sh.copyfile, _sh.copy, _sh.copy2 = real_copyfile, real_copy, real_copy2
    if not os.path.exists(mpath):
        return ["C17.complete-after-fault (metafile missing)"]
    got = real_open(mpath, "rb").read()
    if got == old_bytes or (new_bytes is not None and got == new_bytes):
        return []
    return ["C17.complete-after-fault (metafile holds %d bytes, neither old nor new)" % len(got)]


def canaries(tier):
    return [
        ("edit: metafile removed before the new one is written", {"edit": [(
            "    meta[\"info\"] = info\n", "    meta[\"info\"] = info\n    os.remove(metafile)\n")]},
         ["comment.crash.v1", "all.eperm.v1"]),
    ]


if __name__ == "__main__":
    from harness import common
    raise SystemExit(common.main("harness.c17"))
