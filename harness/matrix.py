"""Configuration matrix for the creator properties (C01, C02, C03, C10, C15).

What the solver quantifies over are sizes, offsets and listing orders.  Everything else a creation request consists
of is a *configuration*: the tree and its names, how the content root is spelled, through which route the request
arrives, the progress mode, how the piece length is written, what the bytes look like, what else is in the tree, and
what the process did before.  Three rounds of independently seeded changes were missed almost only there, so the
dimensions are covered systematically: every PAIR of values of two different dimensions occurs in some row (greedy
covering array, deterministic); the thorough tier runs all rows, the quick tier a seed-rotated handful.  Inside a row
the sizes are symbolic as everywhere else."""
import itertools
import os

from symx.core import tb, disj, Unsupported
from symx.abuf import ABuf
from symx.afs import AFS
from symx.loader import World

from harness import creators as cr
from harness import oracles as orc
from harness.creators import SHAPES
import refconc

TREES = ["single", "flat2", "nested3", "order2", "around3", "hidden2", "selfdir", "suffixdir", "case2", "dir1", "samedir2"] + \
    sorted(k for k in SHAPES if "~" in k and k.split("~")[0] in ("flat2", "nested3"))
DIMS = {
    "tree": TREES,
    "spelling": ["abs"] + sorted(cr.SPELLINGS),
    "route": ["path", "content", "cli"],
    "progress": [0, 1, 2],
    "plen": ["16384", "exp15", "str32768"],
    "content": ["generic", "zero-tail"],
    "extra": ["none", "emptydirs"],
    "history": ["none", "other-first"],
}
PLEN = {"16384": (16384, 16384), "exp15": (15, 32768), "str32768": ("32768", 32768)}
FILE_SPELLINGS = ("abs", "sibling", "twice", "dotname", "relative", "dslash")     # not "updown": name/../name is ENOTDIR when name is a file
EMPTY_DIRS = ["name/empty", "name/zz/hollow/inner"]


def valid(row):
    if row["tree"] == "single":
        if row["spelling"] not in FILE_SPELLINGS or row["extra"] != "none":
            return False
    return True


def pairwise(dims=DIMS, ok=valid):
    """Greedy covering array: rows (dicts) such that every valid pair of values of two dimensions occurs."""
    names = list(dims)
    todo = set()
    for a, b in itertools.combinations(range(len(names)), 2):
        for va in dims[names[a]]:
            for vb in dims[names[b]]:
                todo.add((a, va, b, vb))
    rows = []
    # candidate pool: deterministic pseudo-random rows; pick greedily the one covering most uncovered pairs
    import random
    rnd = random.Random(20240917)
    while todo:
        best, bestc = None, -1
        seedpair = sorted(todo, key=repr)[0]
        for _ in range(40):
            row = {n: rnd.choice(dims[n]) for n in names}
            row[names[seedpair[0]]] = seedpair[1]
            row[names[seedpair[2]]] = seedpair[3]
            if not ok(row):
                continue
            c = sum(1 for (a, va, b, vb) in todo if row[names[a]] == va and row[names[b]] == vb)
            if c > bestc:
                best, bestc = row, c
        if best is None:
            todo.discard(seedpair)      # an invalid combination (e.g. a single file spelled as a directory)
            continue
        rows.append(best)
        for (a, va, b, vb) in list(todo):
            if best[names[a]] == va and best[names[b]] == vb:
                todo.discard((a, va, b, vb))
    return rows


_ROWS = None


def rows(tier, per_run=8):
    global _ROWS
    if _ROWS is None:
        _ROWS = pairwise()
    if tier == "thorough":
        return list(enumerate(_ROWS))
    seed = int(os.environ.get("VERIF_SEED", "0") or 0)
    n = len(_ROWS)
    idx = sorted({(seed * per_run * 7 + i * (n // per_run + 1)) % n for i in range(per_run)})
    return [(i, _ROWS[i]) for i in idx]


def label(i, row):
    return "%03d.%s.%s.%s" % (i, row["tree"], row["spelling"], row["route"])


# ------------------------------------------------------------------ symbolic side

def build(E, row, which, align=False, mutants=None):
    """Returns (fs, world, sizes, Pn, shape, contents) with the request not yet made; contents maps rel -> ABuf."""
    shape = row["tree"]
    rels = SHAPES[shape]
    arg, Pn = PLEN[row["plen"]]
    K = 2 if shape == "single" else 1
    fs = AFS(order="reversed")
    sizes, contents = {}, {}
    for i, r in enumerate(rels):
        s = E.int("s%d" % i, 1 if shape == "single" else 0, K * Pn + (7 if K == 1 else 0))
        sizes[r] = s
        c = ABuf.file(("f", i), s)
        if i == 0 and row["content"] == "zero-tail":
            z = E.int("zero_from", 0, None)
            E.assume(z <= s)
            c = ABuf.of([("F", ("f", 0), 0, z), ("Z", None, 0, s - z)])
        contents[r] = c
        fs.add_content("/data/" + r, ABuf(c))
    E.note("shape", shape)
    E.note("files", list(rels))
    if shape != "single":
        E.assume(disj(*[s > 0 for s in sizes.values()]))
    if row["extra"] == "emptydirs":
        for d in EMPTY_DIRS:
            fs.mkdirs("/data/" + d)
    fs.mkdirs("/out")
    fs.add("/first/other/big", ("g", 0), 5 * 16384 + 3)
    fs.add("/first/other/small", ("g", 1), 5)
    path = cr.spelled(fs, row["spelling"]) if row["spelling"] != "abs" else "/data/name"
    w = World(fs, mutants=mutants)
    return fs, w, sizes, Pn, shape, contents, path, arg


def request(w, which, row, path, arg, align=False, other_first_P=None):
    """Make the creation request of the row; returns the meta dictionary."""
    cls, mv = cr.CLS[which]
    if row["history"] == "other-first":
        P0 = 32768 if PLEN[row["plen"]][1] == 16384 else 16384
        kw0 = dict(path="/first/other", piece_length=P0, progress=0)
        if mv is not None:
            kw0["meta_version"] = mv
        if align:
            kw0["align"] = True
        getattr(w.mod("torrent"), cls)(**kw0)
    route = row["route"]
    if route == "cli" and which in ("1", "2a", "3a"):
        argv = ["create", "--prog", str(row["progress"]), "--meta-version", {"1": "1", "2a": "2", "3a": "3"}[which],
                "--piece-length", str(arg), "-o", "/out/x.torrent"] + (["--align"] if align else []) + [path]
        return w.mod("cli").execute(argv).meta
    kw = dict(piece_length=arg, progress=row["progress"])
    kw["content" if route == "content" else "path"] = path
    if mv is not None:
        kw["meta_version"] = mv
    if align:
        kw["align"] = True
    return getattr(w.mod("torrent"), cls)(**kw).meta


class content_override:
    """Make the symbolic oracles (which ask oracles.content_of) see the row's file contents."""

    def __init__(self, shape, contents):
        self.shape, self.contents = shape, contents

    def __enter__(self):
        self.saved = orc.content_of
        contents = self.contents

        def content_of(shape, rel, sizes, names=None):
            return ABuf(contents[rel])
        orc.content_of = content_of

    def __exit__(self, *a):
        orc.content_of = self.saved


def run(E, which, row, oracle, tag, align=False, _mutants=None):
    """Build, request, judge.  `oracle(E, meta, sizes, Pn, shape)` is the property's own symbolic oracle."""
    fs, w, sizes, Pn, shape, contents, path, arg = build(E, row, which, align, _mutants)
    E.note("row", dict(row))
    try:
        meta = request(w, which, row, path, arg, align)
    except Unsupported:
        raise
    except SystemExit as ex:
        E.fail(tag + ".parser-accepts", str(ex))
        return
    except Exception as ex:  # noqa: BLE001
        E.fail(tag + ".no-exception", "%s: %s (row %r)" % (type(ex).__name__, ex, row))
        return
    with content_override(shape, contents):
        oracle(E, meta, sizes, Pn, shape)


# ------------------------------------------------------------------ concrete side

def replay(which, row, model, workdir, seed, align=False):
    """The same request against the unmodified package on real files; returns (meta or exception, data_by_rel, Pn)."""
    import io
    import contextlib
    shape = row["tree"]
    rels = SHAPES[shape]
    arg, Pn = PLEN[row["plen"]]
    sizes = cr.concrete_sizes(shape, model)
    data = {}
    for i, r in enumerate(rels):
        b = refconc.content(("f", i), sizes[r], seed)
        if i == 0 and row["content"] == "zero-tail":
            z = int(model.get("zero_from", 0))
            b = b[:z] + bytes(len(b) - z)
        data[r] = b
        refconc.write_file(os.path.join(workdir, "data", r), b)
    if row["extra"] == "emptydirs":
        for d in EMPTY_DIRS:
            os.makedirs(os.path.join(workdir, "data", d), exist_ok=True)
    os.makedirs(os.path.join(workdir, "out"), exist_ok=True)
    refconc.write_file(os.path.join(workdir, "first", "other", "big"), refconc.content(("g", 0), 5 * 16384 + 3, seed))
    refconc.write_file(os.path.join(workdir, "first", "other", "small"), refconc.content(("g", 1), 5, seed))
    root = os.path.join(workdir, "data", "name")
    old = os.getcwd()
    if row["spelling"] != "abs":
        root, cwd = cr.spelled_real(workdir, row["spelling"])
        os.chdir(cwd)
    mods = cr.real_torrentfile()
    T = mods["torrentfile.torrent"]
    cls, mv = cr.CLS[which]
    real_listdir = os.listdir
    os.listdir = lambda p=".": sorted(real_listdir(p), reverse=True)
    try:
        with contextlib.redirect_stdout(io.StringIO()), contextlib.redirect_stderr(io.StringIO()):
            if row["history"] == "other-first":
                P0 = 32768 if Pn == 16384 else 16384
                kw0 = dict(path=os.path.join(workdir, "first", "other"), piece_length=P0, progress=0)
                if mv is not None:
                    kw0["meta_version"] = mv
                if align:
                    kw0["align"] = True
                getattr(T, cls)(**kw0)
            if row["route"] == "cli" and which in ("1", "2a", "3a"):
                argv = ["create", "--prog", str(row["progress"]), "--meta-version", {"1": "1", "2a": "2", "3a": "3"}[which],
                        "--piece-length", str(arg), "-o", os.path.join(workdir, "out", "x.torrent")] + (["--align"] if align else []) + [root]
                meta = mods["torrentfile.cli"].execute(argv).meta
            else:
                kw = dict(piece_length=arg, progress=row["progress"])
                kw["content" if row["route"] == "content" else "path"] = root
                if mv is not None:
                    kw["meta_version"] = mv
                if align:
                    kw["align"] = True
                meta = getattr(T, cls)(**kw).meta
    except BaseException as ex:  # noqa: BLE001
        return ex, data, Pn
    finally:
        os.listdir = real_listdir
        os.chdir(old)
    return meta, data, Pn
