"""C09: results never depend on what the process did earlier."""
import os
import types

from symx.core import tb, disj, conj, Unsupported, Rat
from symx.abuf import ABuf, HEX
from symx.afs import AFS
from symx.loader import World, BenTok, ben_equal, ben_copy
from symx.ostr import OStr

from harness import creators as cr
from harness import recheck as rk
from harness import editw as ew
import refconc

PROPERTY = "C09"
MODULES = ["utils", "mixins", "torrent", "hasher", "recheck", "edit", "commands", "rebuild"]
ASSUMPTIONS = [
    "one World = one process: the torrentfile modules are executed once and keep their module-level and class-level state "
    "(Memo cache, callbacks, class attributes) across the operations of a history; a fresh World = a fresh interpreter",
    "history = op1 ; filesystem change ; op2 (thorough: op1 ; change ; op2 ; change ; op3); the last operation's result is "
    "compared with the same operation executed by a fresh World on a copy of the same filesystem state",
    "file sizes before and after each change are solver variables; A-hash model; progress bars stubbed",
]
WITNESSES = ["file added", "file deleted", "file grown", "file shrunk", "file rewritten", "piece length changed between runs"]
MUT = ["none", "add", "delete", "grow", "shrink", "rewrite", "rewrite-keep-times"]


def BOUNDS(tier):
    q = tier == "quick"
    return {"operations": "create v1 / v2 / hybrid (CLI creators; thorough also class creators), recheck, edit, magnet, rebuild",
            "changes": MUT, "tree": "name/a, name/sub/b (+ name/sub/c when added: the root directory's own entries do not change), sizes in [0, 2P]; P in {16, 32} KiB (may differ between runs)",
            "histories": "2 operations" + ("" if q else ", and 3 operations for create/create/create"),
            "outside": "longer histories, more files, concurrent processes"}


def jobs(tier):
    q = tier == "quick"
    out = []
    creators = ["1", "2a", "3a"] + ([] if q else ["2c", "3c"])
    for which in creators:
        for mut in MUT:
            out.append(("create-%s-create.%s" % (mut, which), "job_cc", dict(which1=which, which2=which, mut=mut, P1=16384, P2=16384)))
        out.append(("create-none-create.%s.P-changes" % which, "job_cc", dict(which1=which, which2=which, mut="none", P1=16384, P2=32768)))
    for which in ("2c", "2a", "3a") + (() if q else ("3c",)):
        out.append(("create.%s-then-%s.P-changes.3pieces" % (which, which), "job_cc", dict(which1=which, which2=which, mut="none", P1=16384, P2=32768, K=5)))
    out.append(("create.1-then-1.plain-then-aligned", "job_cc", dict(which1="1", which2="1", mut="none", P1=16384, P2=16384, align2=True)))
    out.append(("create.1-then-3a.add", "job_cc", dict(which1="1", which2="3a", mut="add", P1=16384, P2=16384)))
    out.append(("create.3a-then-1.grow", "job_cc", dict(which1="3a", which2="1", mut="grow", P1=32768, P2=16384)))
    for version in (1, 2):
        for mut in ("add", "delete", "shrink", "rewrite"):
            out.append(("create-%s-recheck.v%d" % (mut, version), "job_cr", dict(version=version, mut=mut)))
    out.append(("recheck-recheck.v1", "job_rr", dict(version=1)))
    out.append(("recheck-recheck.v3", "job_rr", dict(version=3)))
    out.append(("recheck-recheck.v1.other-piece-length", "job_rr", dict(version=1, P2=32768)))
    out.append(("recheck-recheck.v2.other-piece-length", "job_rr", dict(version=2, P2=32768)))
    for version in (2, 3):
        out.append(("failed-recheck-then-recheck.v%d" % version, "job_rr_failed", dict(version=version, failed=True)))
    for which in ("1", "2a", "3a"):
        out.append(("failed-create-then-create.%s" % which, "job_failed_create", dict(which=which, dangling=True)))
    out.append(("rebuild-other-torrent-then-rebuild", "job_rebuild_two", dict(two=True)))
    out.append(("verbose-command-then-rebuild", "job_verbose_rebuild", dict(verbose=True)))
    out.append(("edit-edit", "job_ee", {}))
    out.append(("create-magnet-edit-magnet", "job_magnet", {}))
    out.append(("rebuild-rebuild", "job_rebuild", {}))
    for version in (1, 2, 3):
        out.append(("rebuild-rewrite-rebuild.v%d" % version, "job_rebuild_rewrite", dict(version=version)))
    for mv in ("1", "3"):
        out.append(("cli.create-with-config-then-create.v%s" % mv, "job_cli_config", dict(mv=mv)))
        out.append(("cli.create-with-config-then-other-config.v%s" % mv, "job_cli_config", dict(mv=mv, second="config")))
    if not q:
        out.append(("create3.1", "job_ccc", dict(which="1")))
        out.append(("create3.3a", "job_ccc", dict(which="3a")))
    return out


def mutate(E, fs, sizes, mut, P, tag=""):
    """Apply one filesystem change under /data/name; returns new sizes dict."""
    sizes = dict(sizes)
    if mut == "add":
        s = E.int("sc" + tag, 0, 2 * P)
        fs.add("/data/name/sub/c", ("f", "c" + tag), s)
        sizes["name/sub/c"] = s
        E.witnesses["file added"] = True
    elif mut == "delete":
        del fs.files["/data/name/sub/b"]
        fs.touch("/data/name/sub/b")
        del sizes["name/sub/b"]
        E.witnesses["file deleted"] = True
    elif mut in ("grow", "shrink"):
        s = E.int("sa2" + tag, 0, 2 * P)
        E.assume(s > sizes["name/a"] if mut == "grow" else s < sizes["name/a"])
        fs.add("/data/name/a", ("f", 0), s)
        sizes["name/a"] = s
        E.witnesses["file grown" if mut == "grow" else "file shrunk"] = True
    elif mut == "rewrite":
        fs.add("/data/name/a", ("f", "a-rewritten" + tag), sizes["name/a"])
        E.witnesses["file rewritten"] = True
    elif mut == "rewrite-keep-times":
        # other bytes, same length, timestamps as before (cp -p, rsync -t, touch -r)
        stamps = (dict(fs.mtime), fs.clock)
        fs.add("/data/name/a", ("f", "a-rewritten" + tag), sizes["name/a"])
        fs.mtime, fs.clock = dict(stamps[0]), stamps[1]
        E.witnesses["file rewritten"] = True
    return sizes


def base_fs(E, P, K=2):
    fs = AFS(order="reversed")
    sizes = {}
    for i, r in enumerate(("name/a", "name/sub/b")):
        sizes[r] = E.int("s%d" % i, 0, K * P)
        fs.add("/data/" + r, ("f", i), sizes[r])
    fs.mkdirs("/out")
    fs.mkdirs("/t")
    E.assume(disj(*[s > 0 for s in sizes.values()]))
    return fs, sizes


def strip(meta):
    return {k: v for k, v in meta.items() if k != "creation date"}


def do_create(E, w, which, P, tag, **kw):
    try:
        t = cr.create(w, which, path="/data/name", piece_length=P, progress=0, **kw)
        return strip(t.meta)
    except Unsupported:
        raise
    except Exception as ex:  # noqa: BLE001
        return ("EXC", type(ex).__name__)


def same(a, b):
    if isinstance(a, tuple) or isinstance(b, tuple):
        return a == b
    return ben_equal(a, b, ordered=False)


def job_cc(E, which1, which2, mut, P1, P2, K=2, align2=False, _mutants=None):
    fs, sizes = base_fs(E, max(P1, P2) if K == 2 else P2, K)
    w = World(fs, mutants=_mutants)
    r1 = do_create(E, w, which1, P1, "1")
    sizes2 = mutate(E, fs, sizes, mut, P2)
    if mut != "delete" or True:
        E.assume(disj(*[s > 0 for s in sizes2.values()]))
    kw2 = {"align": True} if align2 else {}
    got = do_create(E, w, which2, P2, "2", **kw2)
    fresh = do_create(E, World(fs.clone(), mutants=_mutants), which2, P2, "fresh", **kw2)
    E.check(same(got, fresh), "C09.create-after-create",
            "second create in the same process differs from a fresh process (%s, change=%s): %s vs %s" % (which2, mut, _brief(got), _brief(fresh)))
    if P1 != P2:
        E.witnesses["piece length changed between runs"] = True
    for k in WITNESSES:
        if mut != "none" or P1 == P2:
            pass


def _brief(m):
    if isinstance(m, tuple):
        return m
    info = m.get("info", {})
    return {"files": [(f.get("path"), f.get("length")) for f in info.get("files", [])] or info.get("length"),
            "tree": sorted(info.get("file tree", {})), "npieces": (info["pieces"].size() // 20) if isinstance(info.get("pieces"), ABuf) else None}


def job_ccc(E, which, _mutants=None):
    P = 16384
    fs, sizes = base_fs(E, P)
    w = World(fs, mutants=_mutants)
    do_create(E, w, which, P, "1")
    sizes = mutate(E, fs, sizes, "add", P, "x")
    do_create(E, w, which, P, "2")
    sizes = mutate(E, fs, sizes, "grow", P, "y")
    got = do_create(E, w, which, P, "3")
    fresh = do_create(E, World(fs.clone(), mutants=_mutants), which, P, "fresh")
    E.check(same(got, fresh), "C09.create-after-create", "third create differs from a fresh process: %s vs %s" % (_brief(got), _brief(fresh)))


def do_recheck(E, w, mpath, cpath):
    R = w.mod("recheck")
    try:
        c = R.Checker(mpath, cpath)
        return c.results()
    except Unsupported:
        raise
    except Exception as ex:  # noqa: BLE001
        return ("EXC", type(ex).__name__)


def same_num(a, b):
    if isinstance(a, tuple) or isinstance(b, tuple):
        return a == b
    return a == b


def job_cr(E, version, mut, _mutants=None):
    """create (writes the metafile), change the payload, recheck in the same process."""
    P = 16384
    fs, sizes = base_fs(E, P)
    w = World(fs, mutants=_mutants)
    which = {1: "1", 2: "2a", 3: "3a"}[version]
    try:
        t = cr.create(w, which, path="/data/name", piece_length=P, progress=0, outfile="/t/m.torrent")
        t.write()
    except Unsupported:
        raise
    except Exception as ex:  # noqa: BLE001
        E.fail("C09.create.no-exception", "%s: %s" % (type(ex).__name__, ex))
        return
    mutate(E, fs, sizes, mut, P)
    got = do_recheck(E, w, "/t/m.torrent", "/data/name")
    fresh = do_recheck(E, World(fs.clone(), mutants=_mutants), "/t/m.torrent", "/data/name")
    E.check(same_num(got, fresh), "C09.recheck-after-create", "recheck in the creating process says %r, a fresh process %r" % (got, fresh))


def job_rr(E, version, P2=None, _mutants=None):
    """recheck, damage a file, recheck again in the same process (optionally
    against a second metafile of the same payload with another piece length)."""
    P = 16384
    fs = AFS(order="reversed")
    sizes = {r: E.int("s%d" % i, 0, 2 * P) for i, r in enumerate(cr.SHAPES["flat2"])}
    E.assume(disj(*[s > 0 for s in sizes.values()]))
    E.note("shape", "flat2")
    rk.apply_damage(E, fs, "flat2", sizes, ["intact", "intact"])
    meta = rk.ref_meta(E, version, "flat2", sizes, P)
    fs.add_token("/t/m.torrent", BenTok(meta))
    second = "/t/m.torrent"
    if P2:
        fs.add_token("/t/m2.torrent", BenTok(rk.ref_meta(E, version, "flat2", sizes, P2)))
        second = "/t/m2.torrent"
    w = World(fs, mutants=_mutants)
    do_recheck(E, w, "/t/m.torrent", "/data")
    s = E.int("t0", 0, None)
    E.assume(s < sizes["name/a"])
    fs.add("/data/name/a", ("f", 0), s)
    got = do_recheck(E, w, second, "/data")
    fresh = do_recheck(E, World(fs.clone(), mutants=_mutants), second, "/data")
    E.check(same_num(got, fresh), "C09.recheck-after-recheck", "second recheck says %r, a fresh process %r" % (got, fresh))


def _drop_nested_root(meta):
    """The same metafile with the pieces root of a nested entry (name/d/b) removed: its recheck fails."""
    from symx.loader import ben_copy
    bad = ben_copy(meta)
    leaf = bad["info"]["file tree"]["d"]["b"][""]
    leaf.pop("pieces root", None)
    return bad


def job_rr_failed(E, version, failed=True, _mutants=None):
    """A recheck that fails with an exception (malformed metafile), then a recheck of a valid one in the same process."""
    P = 16384
    shape = "nested3"
    fs = AFS(order="reversed")
    sizes = {r: E.int("s%d" % i, 1, P + 5) for i, r in enumerate(cr.SHAPES[shape])}
    E.note("shape", shape)
    rk.apply_damage(E, fs, shape, sizes, ["intact"] * 3)
    meta = rk.ref_meta(E, version, shape, sizes, P)
    fs.add_token("/t/m.torrent", BenTok(meta))
    fs.add_token("/t/bad.torrent", BenTok(_drop_nested_root(meta)))
    w = World(fs, mutants=_mutants)
    first = do_recheck(E, w, "/t/bad.torrent", "/data")
    E.witness("first recheck failed", isinstance(first, tuple))
    got = do_recheck(E, w, "/t/m.torrent", "/data")
    fresh = do_recheck(E, World(fs.clone(), mutants=_mutants), "/t/m.torrent", "/data")
    E.check(same_num(got, fresh), "C09.recheck-after-failed-recheck", "after a failed recheck (%r) the next one says %r, a fresh process %r" % (first, got, fresh))


def job_failed_create(E, which, dangling=True, _mutants=None):
    """A create that fails part-way through the directory walk (a dangling symbolic link two levels down), the cause
    removed, then the same create again in the same process: equal to a fresh process."""
    P = 16384
    fs, sizes = base_fs(E, P)
    fs.add("/data/name/sub/deep/c", ("f", 2), 7)
    fs.add_link("/data/name/sub/deep/dangling", "/nowhere/at/all")
    w = World(fs, mutants=_mutants)
    first = do_create(E, w, which, P, "1")
    E.witness("first create failed", isinstance(first, tuple))
    del fs.links["/data/name/sub/deep/dangling"]
    got = do_create(E, w, which, P, "2")
    fresh = do_create(E, World(fs.clone(), mutants=_mutants), which, P, "fresh")
    E.check(same(got, fresh), "C09.create-after-failed-create",
            "after a failed create (%r) the next one gives %s, a fresh process %s" % (first, _brief(got), _brief(fresh)))


def job_rebuild_two(E, two=True, _mutants=None):
    """Two different v1 torrents that both contain a file called data.bin, rebuilt one after the other by one process
    from a search tree that holds the files of both: the second rebuild equals a fresh process's."""
    from symx import refs
    from symx.abuf import ABuf
    P = 16384
    fs = AFS(order="reversed")
    s0, s1, s2 = E.int("s0", P, 2 * P), E.int("s1", P, 2 * P), E.int("s2", 1, P)
    E.note("shape", "two-torrents")
    fs.add("/src/one/data.bin", ("f", 0), s0)
    fs.add("/src/two/data.bin", ("g", 0), s1)
    fs.add("/src/two/other.bin", ("g", 1), s2)

    def v1meta(name, files):
        stream = ABuf.of([])
        lst = []
        for comps, fid, n in files:
            lst.append({"length": n, "path": list(comps)})
            stream.extend(ABuf.file(fid, n))
        return {"info": {"files": lst, "name": name, "piece length": P, "pieces": refs.v1_pieces(stream, P)}}
    fs.add_token("/t/one.torrent", BenTok(v1meta("first", [(["data.bin"], ("f", 0), s0), (["pad.bin"], ("f", 9), 0)])))
    fs.add_token("/t/two.torrent", BenTok(v1meta("second", [(["data.bin"], ("g", 0), s1), (["other.bin"], ("g", 1), s2)])))
    fs.mkdirs("/dest1")
    fs.mkdirs("/dest2")
    fsf = fs.clone()
    w = World(fs, mutants=_mutants)
    try:
        RB = w.mod("rebuild")
        RB.Assembler(["/t/one.torrent"], ["/src"], "/dest1").assemble_torrents()
        n2 = RB.Assembler(["/t/two.torrent"], ["/src"], "/dest2").assemble_torrents()
        n3 = World(fsf, mutants=_mutants).mod("rebuild").Assembler(["/t/two.torrent"], ["/src"], "/dest2").assemble_torrents()
    except Unsupported:
        raise
    except Exception as ex:  # noqa: BLE001
        E.fail("C09.rebuild.no-exception", "%s: %s" % (type(ex).__name__, ex))
        return
    E.check(n2 == n3, "C09.rebuild-after-other-torrent.count", "second rebuild in the same process counts %r, a fresh process %r" % (n2, n3))
    d2 = sorted(p for p in fs.files if p.startswith("/dest2/"))
    d3 = sorted(p for p in fsf.files if p.startswith("/dest2/"))
    E.check(d2 == d3 and all(fs.files[p].content == fsf.files[p].content for p in d2), "C09.rebuild-after-other-torrent.tree",
            "destination of the second rebuild: %r, in a fresh process: %r" % (d2, d3))


def job_verbose_rebuild(E, verbose=True, _mutants=None):
    """A command run with -v (debug logging switched on for the rest of the process), then a rebuild whose search
    directories hold two same-named, same-sized candidates: the result equals a fresh process's."""
    P = 16384
    fs = AFS(order="reversed")
    s0 = E.int("s0", P + 1, 3 * P)
    s1 = E.int("s1", 1, P)
    E.note("shape", "flat2")
    from symx.abuf import ABuf
    fs.add("/src/zz-good/a", ("f", 0), s0)
    fs.add_content("/src/A-partial/a", ABuf.of([("F", ("f", 0), 0, P), ("F", ("decoy", 0), P, s0 - P)]))
    fs.add("/src/b", ("f", 1), s1)
    meta = rk.ref_meta(E, 1, "flat2", {"name/a": s0, "name/b": s1}, P)
    fs.add_token("/t/m.torrent", BenTok(meta))
    fs.mkdirs("/dest")
    fsf = fs.clone()
    w = World(fs, mutants=_mutants)
    try:
        try:
            w.mod("cli").execute(["-v", "magnet", "/t/m.torrent"])
        except SystemExit:
            pass
        n1 = w.mod("rebuild").Assembler(["/t/m.torrent"], ["/src"], "/dest").assemble_torrents()
        w2 = World(fsf, mutants=_mutants)
        n2 = w2.mod("rebuild").Assembler(["/t/m.torrent"], ["/src"], "/dest").assemble_torrents()
    except Unsupported:
        raise
    except Exception as ex:  # noqa: BLE001
        E.fail("C09.rebuild.no-exception", "%s: %s" % (type(ex).__name__, ex))
        return
    E.check(n1 == n2, "C09.rebuild-after-verbose.count", "rebuild after a -v command counts %r, a fresh process %r" % (n1, n2))
    d1 = sorted(p for p in fs.files if p.startswith("/dest/"))
    d2 = sorted(p for p in fsf.files if p.startswith("/dest/"))
    E.check(d1 == d2 and all(fs.files[p].content == fsf.files[p].content for p in d1), "C09.rebuild-after-verbose.tree",
            "destination after a -v command differs from a fresh process's: %r vs %r" % (d1, d2))


def job_ee(E, _mutants=None):
    fs = AFS()
    base = ew.base_meta(E, 3, {"comment-top": False, "layers": True})
    fs.add_token(ew.MPATH, BenTok(ben_copy(base)))
    w = World(fs, mutants=_mutants)
    req1 = ew.request(E, {"comment": "str", "announce": "list2"}, tag="1")
    req2 = ew.request(E, {"comment": "cleared", "url-list": "list1", "private": "true"}, tag="2")
    try:
        w.mod("edit").edit_torrent(ew.MPATH, dict(req1))
        snapshot = fs.clone()
        w.mod("edit").edit_torrent(ew.MPATH, dict(req2))
        got = ew.file_obj(fs)
        w2 = World(snapshot, mutants=_mutants)
        w2.mod("edit").edit_torrent(ew.MPATH, dict(req2))
        fresh = ew.file_obj(snapshot)
    except Unsupported:
        raise
    except Exception as ex:  # noqa: BLE001
        E.fail("C09.edit.no-exception", "%s: %s" % (type(ex).__name__, ex))
        return
    E.check(isinstance(got, dict) and isinstance(fresh, dict) and ben_equal(got, fresh), "C09.edit-after-edit")


def job_magnet(E, _mutants=None):
    P = 16384
    fs, sizes = base_fs(E, P)
    w = World(fs, mutants=_mutants)
    try:
        t = cr.create(w, "3a", path="/data/name", piece_length=P, progress=0, outfile="/t/m.torrent",
                      announce=[OStr("tr0", nonempty=True)])
        t.write()
        C = w.mod("commands")
        u1 = C.magnet("/t/m.torrent")
        w.mod("edit").edit_torrent("/t/m.torrent", {"announce": [OStr("tr1", nonempty=True)], "comment": OStr("c", nonempty=True)})
        got = C.magnet("/t/m.torrent")
        got_dig = [HEX.get(x) for x in _phs(got)]
        got_q = [w.quoted.get(x) for x in _qs(got)]
        w2 = World(fs.clone(), mutants=_mutants)
        fresh = w2.mod("commands").magnet("/t/m.torrent")
        fr_dig = [HEX.get(x) for x in _phs(fresh)]
        fr_q = [w2.quoted.get(x) for x in _qs(fresh)]
    except Unsupported:
        raise
    except Exception as ex:  # noqa: BLE001
        E.fail("C09.magnet.no-exception", "%s: %s" % (type(ex).__name__, ex))
        return
    E.check(len(got_dig) == len(fr_dig) and all(a == b for a, b in zip(got_dig, fr_dig)), "C09.magnet-after-edit.hashes")
    E.check(len(got_q) == len(fr_q) and all(a is b for a, b in zip(got_q, fr_q)), "C09.magnet-after-edit.components")


def _phs(uri):
    import re
    return re.findall(r"⟦sha(?:1|256):\d+⟧", uri)


def _qs(uri):
    import re
    return re.findall(r"⟦q:\d+⟧", uri)


def job_rebuild(E, _mutants=None):
    """Two rebuilds by one process (the Assembler registers a bound method on the Metadata class)."""
    P = 16384
    fs = AFS(order="reversed")
    sizes = {r: E.int("s%d" % i, 1, 2 * P) for i, r in enumerate(cr.SHAPES["flat2"])}
    E.note("shape", "flat2")
    for i, r in enumerate(cr.SHAPES["flat2"]):
        fs.add("/src/" + r.split("/", 1)[1], ("f", i), sizes[r])
    meta = rk.ref_meta(E, 1, "flat2", sizes, P)
    fs.add_token("/t/m.torrent", BenTok(meta))
    fs.mkdirs("/dest1")
    fs.mkdirs("/dest2")
    w = World(fs, mutants=_mutants)
    try:
        RB = w.mod("rebuild")
        a1 = RB.Assembler(["/t/m.torrent"], ["/src"], "/dest1")
        n1 = a1.assemble_torrents()
        a2 = RB.Assembler(["/t/m.torrent"], ["/src"], "/dest2")
        n2 = a2.assemble_torrents()
        fsf = fs.clone()
        for p in [p for p in fsf.files if p.startswith("/dest2/")]:
            del fsf.files[p]
        fsf.dirs = {d for d in fsf.dirs if not d.startswith("/dest2/")}
        w2 = World(fsf, mutants=_mutants)
        a3 = w2.mod("rebuild").Assembler(["/t/m.torrent"], ["/src"], "/dest2")
        n3 = a3.assemble_torrents()
    except Unsupported:
        raise
    except Exception as ex:  # noqa: BLE001
        E.fail("C09.rebuild.no-exception", "%s: %s" % (type(ex).__name__, ex))
        return
    E.check(n2 == n3, "C09.rebuild-after-rebuild.count", "second rebuild in the same process counts %r, a fresh process %r" % (n2, n3))
    d2 = sorted(p for p in fs.files if p.startswith("/dest2/"))
    d3 = sorted(p for p in fsf.files if p.startswith("/dest2/"))
    E.check(d2 == d3 and all(fs.files[p].content == fsf.files[p].content for p in d2), "C09.rebuild-after-rebuild.tree",
            "%r vs %r" % (d2, d3))


def job_rebuild_rewrite(E, version, _mutants=None):
    """rebuild; a source file is rewritten in place (same size, other bytes); rebuild again into another destination."""
    P = 16384
    fs = AFS(order="reversed")
    sizes = {r: E.int("s%d" % i, 1, 2 * P) for i, r in enumerate(cr.SHAPES["flat2"])}
    E.note("shape", "flat2")
    for i, r in enumerate(cr.SHAPES["flat2"]):
        fs.add("/src/" + r.split("/", 1)[1], ("f", i), sizes[r])
    meta = rk.ref_meta(E, version, "flat2", sizes, P)
    fs.add_token("/t/m.torrent", BenTok(meta))
    fs.mkdirs("/dest1")
    fs.mkdirs("/dest2")
    w = World(fs, mutants=_mutants)
    try:
        w.mod("rebuild").Assembler(["/t/m.torrent"], ["/src"], "/dest1").assemble_torrents()
        fs.add("/src/a", ("f", "a-rewritten"), sizes["name/a"])
        n2 = w.mod("rebuild").Assembler(["/t/m.torrent"], ["/src"], "/dest2").assemble_torrents()
        fsf = fs.clone()
        for p in [p for p in fsf.files if p.startswith("/dest2/")]:
            del fsf.files[p]
        fsf.dirs = {d for d in fsf.dirs if not d.startswith("/dest2/")}
        n3 = World(fsf, mutants=_mutants).mod("rebuild").Assembler(["/t/m.torrent"], ["/src"], "/dest2").assemble_torrents()
    except Unsupported:
        raise
    except Exception as ex:  # noqa: BLE001
        E.fail("C09.rebuild.no-exception", "%s: %s" % (type(ex).__name__, ex))
        return
    E.check(n2 == n3, "C09.rebuild-after-rewrite.count", "second rebuild counts %r, a fresh process %r" % (n2, n3))
    d2 = sorted(p for p in fs.files if p.startswith("/dest2/"))
    d3 = sorted(p for p in fsf.files if p.startswith("/dest2/"))
    E.check(d2 == d3 and all(fs.files[p].content == fsf.files[p].content for p in d2), "C09.rebuild-after-rewrite.tree", "%r vs %r" % (d2, d3))


def job_cli_config(E, mv, second=None, _mutants=None):
    """Two creates through the command line entry point in one process: the first takes trackers and seeds from a
    configuration file, the second gives none."""
    P = 16384
    fs, sizes = base_fs(E, P)
    fs.add_token("/cfg/t.ini", ("INI", {"config": {"announce": "\nhttp://cfg/one\nhttp://cfg/two", "web-seed": "\nhttp://cfg/ws",
                                                   "comment": "from config", "private": "true"}}))
    w = World(fs, mutants=_mutants)
    argv2 = ["create", "--prog", "0", "--meta-version", mv, "--piece-length", "14", "-o", "/out/two.torrent", "/data/name"]
    if second == "config":
        # the second create reads another configuration file that sets fewer options
        fs.add_token("/cfg/u.ini", ("INI", {"config": {"comment": "second config"}}))
        argv2 = argv2[:-1] + ["--config", "--config-path", "/cfg/u.ini", "/data/name"]
    try:
        cli = w.mod("cli")
        cli.execute(["create", "--prog", "0", "--meta-version", mv, "--piece-length", "14", "--config", "--config-path", "/cfg/t.ini",
                     "-o", "/out/one.torrent", "/data/name"])
        got = strip(cli.execute(list(argv2)).meta)
        fsf = fs.clone()
        fsf.files.pop("/out/two.torrent", None)
        fresh = strip(World(fsf, mutants=_mutants).mod("cli").execute(list(argv2)).meta)
    except Unsupported:
        raise
    except SystemExit as ex:
        E.fail("C09.cli.parser-accepts", str(ex))
        return
    except Exception as ex:  # noqa: BLE001
        E.fail("C09.cli.no-exception", "%s: %s" % (type(ex).__name__, ex))
        return
    E.check(same(got, fresh), "C09.cli-create-after-config-create",
            "second create gives top-level keys %r, a fresh process %r" % (sorted(got), sorted(fresh)))


# ------------------------------------------------------------------ concrete replay

def _fresh(code, workdir, *args):
    import subprocess
    import sys
    import json
    repo = os.environ.get("VERIF_REAL_REPO") or os.environ.get("VERIF_REPO", "/repo")
    r = subprocess.run([sys.executable, "-c", "import sys; sys.path.insert(0, %r)\n" % repo + code] + list(args), capture_output=True, text=True, cwd=workdir)
    try:
        return json.loads(r.stdout)
    except Exception:
        return "SUBPROCESS-FAILED " + r.stderr[-300:]


def _replay_rebuild_rewrite(params, model, workdir, seed):
    import io
    import contextlib
    import json
    version, P = params["version"], 16384
    sa, sb = int(model["s0"]), int(model["s1"])
    da, db = refconc.content(("f", 0), sa, seed), refconc.content(("f", 1), sb, seed)
    refconc.write_file(workdir + "/src/a", da)
    refconc.write_file(workdir + "/src/b", db)
    meta = refconc.build_meta([(["a"], da), (["b"], db)], P, version)
    refconc.write_file(workdir + "/t/m.torrent", refconc.bencode(meta))
    mods = cr.real_torrentfile()
    RB = mods["torrentfile.rebuild"]
    with contextlib.redirect_stdout(io.StringIO()):
        RB.Assembler([workdir + "/t/m.torrent"], [workdir + "/src"], workdir + "/dest1").assemble_torrents()
        refconc.write_file(workdir + "/src/a", refconc.content(("f", "a-rewritten"), sa, seed))
        n2 = RB.Assembler([workdir + "/t/m.torrent"], [workdir + "/src"], workdir + "/dest2").assemble_torrents()
    tree2 = {k: v for k, v in refconc.snapshot(workdir + "/dest2").items()} if os.path.isdir(workdir + "/dest2") else {}
    code = ("import json, io, contextlib, os\nimport torrentfile.rebuild as RB\nw = sys.argv[1]\n"
            "with contextlib.redirect_stdout(io.StringIO()):\n"
            "    n = RB.Assembler([w + '/t/m.torrent'], [w + '/src'], w + '/dest3').assemble_torrents()\n"
            "out = []\n"
            "for d, ds, fs in os.walk(w + '/dest3'):\n"
            "    for f in fs: out.append([os.path.relpath(os.path.join(d, f), w + '/dest3'), open(os.path.join(d, f), 'rb').read().hex()])\n"
            "sys.stdout.write(json.dumps([n, sorted(out)]))\n")
    fr = _fresh(code, workdir, workdir)
    mine = [n2, sorted([k, v[1].hex()] for k, v in tree2.items() if v[0] == "f")]
    return [] if fr == json.loads(json.dumps(mine)) else ["C09.rebuild-after-rewrite (%r vs %r)" % (mine[0], fr[0] if isinstance(fr, list) else fr)]


def _replay_cli_config(params, model, workdir, seed):
    import io
    import contextlib
    import json
    import sys
    mv = params["mv"]
    root = os.path.join(workdir, "data", "name")
    refconc.write_file(os.path.join(root, "a"), refconc.content(("f", 0), int(model.get("s0", 0)), seed))
    refconc.write_file(os.path.join(root, "sub", "b"), refconc.content(("f", 1), int(model.get("s1", 0)), seed))
    os.makedirs(workdir + "/out")
    ini = workdir + "/t.ini"
    with open(ini, "w") as f:
        f.write("[config]\nannounce =\n    http://cfg/one\n    http://cfg/two\nweb-seed =\n    http://cfg/ws\ncomment = from config\nprivate = true\n")
    cr.real_torrentfile()
    import torrentfile.cli  # noqa: F401
    cli = sys.modules["torrentfile.cli"]
    argv2 = ["create", "--prog", "0", "--meta-version", mv, "--piece-length", "14", "-o", workdir + "/out/two.torrent", root]
    if params.get("second") == "config":
        with open(workdir + "/u.ini", "w") as f:
            f.write("[config]\ncomment = second config\n")
        argv2 = argv2[:-1] + ["--config", "--config-path", workdir + "/u.ini", root]

    def n(m):
        m = {k: v for k, v in m.items() if k != "creation date"}
        return json.loads(json.dumps(_jsonable(m)))
    try:
        with contextlib.redirect_stdout(io.StringIO()), contextlib.redirect_stderr(io.StringIO()):
            cli.execute(["create", "--prog", "0", "--meta-version", mv, "--piece-length", "14", "--config", "--config-path", ini,
                         "-o", workdir + "/out/one.torrent", root])
            got = n(cli.execute(list(argv2)).meta)
    except BaseException as ex:  # noqa: BLE001
        return ["C09.cli.no-exception: %r" % (ex,)]
    code = ("import json, io, contextlib\nimport torrentfile.cli as cli\n"
            "def j(x):\n"
            "    if isinstance(x, dict): return sorted((repr(k), j(v)) for k, v in x.items())\n"
            "    if isinstance(x, (list, tuple)): return [j(v) for v in x]\n"
            "    if isinstance(x, (bytes, bytearray)): return bytes(x).hex()\n"
            "    return x\n"
            "with contextlib.redirect_stdout(io.StringIO()), contextlib.redirect_stderr(io.StringIO()):\n"
            "    m = cli.execute(sys.argv[1:]).meta\n"
            "m = {k: v for k, v in m.items() if k != 'creation date'}\n"
            "sys.stdout.write(json.dumps(j(m)))\n")
    os.remove(workdir + "/out/two.torrent")
    fr = _fresh(code, workdir, *argv2)
    return [] if got == fr else ["C09.cli-create-after-config-create"]


def _replay_rr_failed(params, model, workdir, seed):
    import io
    import contextlib
    import copy
    shape = "nested3"
    p2 = dict(version=params["version"], shape=shape, P=16384, dmg=["intact"] * 3, source="ref", cpath="parent")
    mpath, cpath, data, disk, sizes = rk.conc_world(p2, model, workdir, seed)
    meta = refconc.bdecode_strict(open(mpath, "rb").read())
    bad = copy.deepcopy(meta)
    bad[b"info"][b"file tree"][b"d"][b"b"][b""].pop(b"pieces root", None)
    bpath = os.path.join(workdir, "t", "bad.torrent")
    with open(bpath, "wb") as f:
        f.write(refconc.bencode(bad))
    mods = cr.real_torrentfile()
    R = mods["torrentfile.recheck"]

    def run(p):
        try:
            with contextlib.redirect_stdout(io.StringIO()):
                return R.Checker(p, cpath).results()
        except Exception as ex:  # noqa: BLE001
            return ("EXC", type(ex).__name__)
    run(bpath)
    got = run(mpath)
    code = ("import json, io, contextlib\nfrom torrentfile.recheck import Checker\n"
            "try:\n"
            "    with contextlib.redirect_stdout(io.StringIO()):\n"
            "        r = Checker(sys.argv[1], sys.argv[2]).results()\n"
            "except Exception as ex:\n"
            "    r = ['EXC', type(ex).__name__]\n"
            "print(json.dumps(r))\n")
    fresh = _fresh(code, workdir, mpath, cpath)
    g = list(got) if isinstance(got, tuple) else got
    return [] if g == fresh else ["C09.recheck-after-failed-recheck (%r vs %r)" % (g, fresh)]


def _replay_failed_create(params, model, workdir, seed):
    import io
    import contextlib
    import json
    root = os.path.join(workdir, "data", "name")
    refconc.write_file(os.path.join(root, "a"), refconc.content(("f", 0), int(model.get("s0", 0)), seed))
    refconc.write_file(os.path.join(root, "sub", "b"), refconc.content(("f", 1), int(model.get("s1", 0)), seed))
    refconc.write_file(os.path.join(root, "sub", "deep", "c"), refconc.content(("f", 2), 7, seed))
    link = os.path.join(root, "sub", "deep", "dangling")
    os.symlink("/nowhere/at/all", link)
    mods = cr.real_torrentfile()
    T = mods["torrentfile.torrent"]
    cls, mv = cr.CLS[params["which"]]
    kw = dict(path=root, piece_length=16384, progress=0)
    if mv:
        kw["meta_version"] = mv

    def n(m):
        m = {k: v for k, v in m.items() if k != "creation date"}
        return json.loads(json.dumps(_jsonable(m)))
    try:
        with contextlib.redirect_stdout(io.StringIO()):
            try:
                getattr(T, cls)(**kw)
            except Exception:  # noqa: BLE001
                pass
            os.remove(link)
            got = n(getattr(T, cls)(**kw).meta)
    except Exception as ex:  # noqa: BLE001
        got = ["EXC", type(ex).__name__]
    code = ("import json, io, contextlib\nimport torrentfile.torrent as T\n"
            "def j(x):\n"
            "    if isinstance(x, dict): return sorted((repr(k), j(v)) for k, v in x.items())\n"
            "    if isinstance(x, (list, tuple)): return [j(v) for v in x]\n"
            "    if isinstance(x, (bytes, bytearray)): return bytes(x).hex()\n"
            "    return x\n"
            "kw = json.loads(sys.argv[2])\n"
            "try:\n"
            "    with contextlib.redirect_stdout(io.StringIO()):\n"
            "        m = getattr(T, sys.argv[1])(**kw).meta\n"
            "    m = {k: v for k, v in m.items() if k != 'creation date'}\n"
            "    out = j(m)\n"
            "except Exception as ex:\n"
            "    out = ['EXC', type(ex).__name__]\n"
            "sys.stdout.write(json.dumps(out))\n")
    fr = _fresh(code, workdir, cls, json.dumps(kw))
    return [] if got == fr else ["C09.create-after-failed-create"]


def _replay_rebuild_two(params, model, workdir, seed):
    import io
    import contextlib
    P = 16384
    s0, s1, s2 = int(model["s0"]), int(model["s1"]), int(model["s2"])
    a, b, c = refconc.content(("f", 0), s0, seed), refconc.content(("g", 0), s1, seed), refconc.content(("g", 1), s2, seed)
    for root in ("p1", "p2"):
        base = os.path.join(workdir, root)
        refconc.write_file(base + "/src/one/data.bin", a)
        refconc.write_file(base + "/src/two/data.bin", b)
        refconc.write_file(base + "/src/two/other.bin", c)
        refconc.write_file(base + "/t/one.torrent", refconc.bencode(refconc.build_meta([(["data.bin"], a), (["pad.bin"], b"")], P, 1, name="first")))
        refconc.write_file(base + "/t/two.torrent", refconc.bencode(refconc.build_meta([(["data.bin"], b), (["other.bin"], c)], P, 1, name="second")))
        os.makedirs(base + "/dest1")
        os.makedirs(base + "/dest2")
    mods = cr.real_torrentfile()
    b1 = os.path.join(workdir, "p1")
    real_listdir = os.listdir
    os.listdir = lambda p=".": sorted(real_listdir(p), reverse=True)
    try:
        with contextlib.redirect_stdout(io.StringIO()):
            RB = mods["torrentfile.rebuild"]
            RB.Assembler([b1 + "/t/one.torrent"], [b1 + "/src"], b1 + "/dest1").assemble_torrents()
            n2 = RB.Assembler([b1 + "/t/two.torrent"], [b1 + "/src"], b1 + "/dest2").assemble_torrents()
    except Exception as ex:  # noqa: BLE001
        return ["C09.rebuild.no-exception: %s: %s" % (type(ex).__name__, ex)]
    finally:
        os.listdir = real_listdir
    b2 = os.path.join(workdir, "p2")
    code = ("import json, io, contextlib, os\nimport torrentfile.rebuild as RB\nw = sys.argv[1]\n"
            "_l = os.listdir\nos.listdir = lambda p='.': sorted(_l(p), reverse=True)\n"
            "with contextlib.redirect_stdout(io.StringIO()):\n"
            "    n = RB.Assembler([w + '/t/two.torrent'], [w + '/src'], w + '/dest2').assemble_torrents()\n"
            "print(json.dumps(n))\n")
    n3 = _fresh(code, workdir, b2)
    bad = []
    if n2 != n3:
        bad.append("C09.rebuild-after-other-torrent.count (%r vs %r)" % (n2, n3))
    if refconc.snapshot(b1 + "/dest2") != refconc.snapshot(b2 + "/dest2"):
        bad.append("C09.rebuild-after-other-torrent.tree")
    return bad


def _replay_verbose_rebuild(params, model, workdir, seed):
    import io
    import contextlib
    import shutil
    import logging
    P = 16384
    s0, s1 = int(model["s0"]), int(model["s1"])
    da, db = refconc.content(("f", 0), s0, seed), refconc.content(("f", 1), s1, seed)
    for root in ("p1", "p2"):
        b = os.path.join(workdir, root)
        refconc.write_file(b + "/src/zz-good/a", da)
        refconc.write_file(b + "/src/A-partial/a", da[:P] + refconc.content(("decoy", 0), s0, seed)[P:])
        refconc.write_file(b + "/src/b", db)
        refconc.write_file(b + "/t/m.torrent", refconc.bencode(refconc.build_meta([(["a"], da), (["b"], db)], P, 1)))
        os.makedirs(b + "/dest")
    real_listdir = os.listdir
    os.listdir = lambda p=".": sorted(real_listdir(p), reverse=True)
    mods = cr.real_torrentfile()
    b = os.path.join(workdir, "p1")
    root_logger = logging.getLogger()
    saved = (root_logger.level, list(root_logger.handlers))
    try:
        with contextlib.redirect_stdout(io.StringIO()), contextlib.redirect_stderr(io.StringIO()):
            try:
                mods["torrentfile.cli"].execute(["-v", "magnet", b + "/t/m.torrent"])
            except SystemExit:
                pass
            mods["torrentfile.rebuild"].Assembler([b + "/t/m.torrent"], [b + "/src"], b + "/dest").assemble_torrents()
    except Exception as ex:  # noqa: BLE001
        return ["C09.rebuild.no-exception: %s: %s" % (type(ex).__name__, ex)]
    finally:
        os.listdir = real_listdir
        root_logger.setLevel(saved[0])
        for h in list(root_logger.handlers):
            if h not in saved[1]:
                root_logger.removeHandler(h)
    b2 = os.path.join(workdir, "p2")
    code = ("import json, io, contextlib, os\nimport torrentfile.rebuild as RB\nw = sys.argv[1]\n"
            "_l = os.listdir\nos.listdir = lambda p='.': sorted(_l(p), reverse=True)\n"
            "with contextlib.redirect_stdout(io.StringIO()):\n"
            "    RB.Assembler([w + '/t/m.torrent'], [w + '/src'], w + '/dest').assemble_torrents()\n"
            "print(json.dumps('ok'))\n")
    r = _fresh(code, workdir, b2)
    if r != "ok":
        return ["C09.replay-subprocess: %r" % (r,)]
    t1 = refconc.snapshot(b + "/dest")
    t2 = refconc.snapshot(b2 + "/dest")
    return [] if t1 == t2 else ["C09.rebuild-after-verbose.tree"]


def _jsonable(x):
    if isinstance(x, dict):
        return sorted((repr(k), _jsonable(v)) for k, v in x.items())
    if isinstance(x, (list, tuple)):
        return [_jsonable(v) for v in x]
    if isinstance(x, (bytes, bytearray)):
        return bytes(x).hex()
    return x


def replay(params, model, notes, workdir, seed):
    """Same history on real files in one interpreter (this one), compared with a
    fresh interpreter (a subprocess) on a copy of the final state."""
    import io
    import contextlib
    import json
    import shutil
    import subprocess
    import sys
    if "mv" in params:
        return _replay_cli_config(params, model, workdir, seed)
    if params.get("failed"):
        return _replay_rr_failed(params, model, workdir, seed)
    if params.get("verbose"):
        return _replay_verbose_rebuild(params, model, workdir, seed)
    if params.get("two"):
        return _replay_rebuild_two(params, model, workdir, seed)
    if params.get("dangling"):
        return _replay_failed_create(params, model, workdir, seed)
    if set(params) == {"version"} and notes.get("shape") == "flat2" and "t0" not in model:
        return _replay_rebuild_rewrite(params, model, workdir, seed)
    if "which2" not in params and "which" not in params and "mut" not in params and "version" not in params:
        return []       # edit/magnet/rebuild histories are not replayed concretely (a model counterexample there is inconclusive)
    P1 = params.get("P1", 16384)
    P2 = params.get("P2", 16384)
    root = os.path.join(workdir, "data", "name")
    sa, sb = int(model.get("s0", 0)), int(model.get("s1", 0))
    refconc.write_file(os.path.join(root, "a"), refconc.content(("f", 0), sa, seed))
    refconc.write_file(os.path.join(root, "sub", "b"), refconc.content(("f", 1), sb, seed))
    mods = cr.real_torrentfile()
    T = mods["torrentfile.torrent"]

    def mk(which, P, outfile=None, **extra):
        cls, mv = cr.CLS[which]
        kw = dict(path=root, piece_length=P, progress=0, **extra)
        if mv:
            kw["meta_version"] = mv
        if outfile:
            kw["outfile"] = outfile
        with contextlib.redirect_stdout(io.StringIO()):
            return getattr(T, cls)(**kw)

    def change(mut, tag=""):
        if mut == "add":
            refconc.write_file(os.path.join(root, "sub", "c"), refconc.content(("f", "c" + tag), int(model.get("sc" + tag, 0)), seed))
        elif mut == "delete":
            os.remove(os.path.join(root, "sub", "b"))
        elif mut in ("grow", "shrink"):
            refconc.write_file(os.path.join(root, "a"), refconc.content(("f", 0), int(model.get("sa2" + tag, 0)), seed))
        elif mut == "rewrite":
            refconc.write_file(os.path.join(root, "a"), refconc.content(("f", "a-rewritten" + tag), sa, seed))
        elif mut == "rewrite-keep-times":
            st, dst = os.stat(os.path.join(root, "a")), os.stat(root)
            with open(os.path.join(root, "a"), "wb") as f_:
                f_.write(refconc.content(("f", "a-rewritten" + tag), sa, seed))
            os.utime(os.path.join(root, "a"), ns=(st.st_atime_ns, st.st_mtime_ns))
            os.utime(root, ns=(dst.st_atime_ns, dst.st_mtime_ns))

    fresh_code = (
        "import sys, json, io, contextlib; sys.path.insert(0, %r)\n"
        "import torrentfile.torrent as T, torrentfile.recheck as R\n"
        "kind, which, P, root, mpath = sys.argv[1:6]\n"
        "with contextlib.redirect_stdout(io.StringIO()):\n"
        "    if kind == 'create':\n"
        "        kw = dict(path=root, piece_length=int(P), progress=0)\n"
        "        if len(sys.argv) > 6 and sys.argv[6] == 'align': kw['align'] = True\n"
        "        cls, mv = which.split(':')\n"
        "        if mv != '-': kw['meta_version'] = mv\n"
        "        m = getattr(T, cls)(**kw).meta; m.pop('creation date', None)\n"
        "        def n(x):\n"
        "            if isinstance(x, dict): return sorted((repr(k), n(v)) for k, v in x.items())\n"
        "            if isinstance(x, (list, tuple)): return [n(v) for v in x]\n"
        "            if isinstance(x, (bytes, bytearray)): return bytes(x).hex()\n"
        "            return x\n"
        "        out = n(m)\n"
        "    else:\n"
        "        try:\n"
        "            out = R.Checker(mpath, root).results()\n"
        "        except Exception as ex:\n"
        "            out = 'EXC ' + type(ex).__name__\n"
        "sys.stdout.write(json.dumps(out))\n" % (os.environ.get("VERIF_REAL_REPO") or os.environ.get("VERIF_REPO", "/repo"),))

    def norm(m):
        m = {k: v for k, v in m.items() if k != "creation date"}

        def n(x):
            if isinstance(x, dict):
                return sorted((repr(k), n(v)) for k, v in x.items())
            if isinstance(x, (list, tuple)):
                return [n(v) for v in x]
            if isinstance(x, (bytes, bytearray)):
                return bytes(x).hex()
            return x
        return json.loads(json.dumps(n(m)))

    def fresh(kind, which, P, mpath="-", align=False):
        cls, mv = cr.CLS[which] if which in cr.CLS else ("-", None)
        r = subprocess.run([sys.executable, "-c", fresh_code, kind, "%s:%s" % (cls, mv or "-"), str(P), root, mpath, "align" if align else "-"],
                           capture_output=True, text=True, cwd=workdir)
        try:
            return json.loads(r.stdout)
        except Exception:
            return "SUBPROCESS-FAILED " + r.stderr[-200:]
    if "which" in params:
        w = params["which"]
        mk(w, 16384)
        change("add", "x")
        mk(w, 16384)
        change("grow", "y")
        got = norm(mk(w, 16384).meta)
        return [] if got == fresh("create", w, 16384) else ["C09.create-after-create"]
    if "which2" in params:
        try:
            mk(params["which1"], P1)
        except Exception:
            pass
        change(params["mut"])
        extra = {"align": True} if params.get("align2") else {}
        try:
            got = norm(mk(params["which2"], P2, **extra).meta)
        except Exception as ex:  # noqa: BLE001
            got = "EXC " + type(ex).__name__
        fr = fresh("create", params["which2"], P2, align=bool(extra))
        return [] if got == fr else ["C09.create-after-create"]
    if "mut" not in params:
        # recheck ; truncate a ; recheck (second metafile may use another piece length)
        version = params["version"]
        data = {"a": refconc.content(("f", 0), sa, seed), "b": refconc.content(("f", 1), sb, seed)}
        files = [(["a"], data["a"]), (["sub", "b"], data["b"])]
        m1 = os.path.join(workdir, "m.torrent")
        with open(m1, "wb") as f:
            f.write(refconc.bencode(refconc.build_meta(files, 16384, version)))
        second = m1
        if params.get("P2"):
            second = os.path.join(workdir, "m2.torrent")
            with open(second, "wb") as f:
                f.write(refconc.bencode(refconc.build_meta(files, params["P2"], version)))
        R = mods["torrentfile.recheck"]
        parent = os.path.dirname(root)

        def chk(mp):
            try:
                with contextlib.redirect_stdout(io.StringIO()):
                    return R.Checker(mp, parent).results()
            except Exception as ex:  # noqa: BLE001
                return "EXC " + type(ex).__name__
        chk(m1)
        refconc.write_file(os.path.join(root, "a"), data["a"][:int(model.get("t0", 0))])
        got = chk(second)
        r = subprocess.run([sys.executable, "-c", fresh_code, "recheck", "-:-", "0", parent, second], capture_output=True, text=True, cwd=workdir)
        try:
            fr = json.loads(r.stdout)
        except Exception:
            fr = "SUBPROCESS-FAILED"
        return [] if got == fr else ["C09.recheck-after-recheck (%r vs %r)" % (got, fr)]
    version, mut = params["version"], params["mut"]
    which = {1: "1", 2: "2a", 3: "3a"}[version]
    mpath = os.path.join(workdir, "m.torrent")
    t = mk(which, 16384, mpath)
    with contextlib.redirect_stdout(io.StringIO()):
        t.write()
    change(mut)
    try:
        with contextlib.redirect_stdout(io.StringIO()):
            got = mods["torrentfile.recheck"].Checker(mpath, root).results()
    except Exception as ex:  # noqa: BLE001
        got = "EXC " + type(ex).__name__
    fr = fresh("recheck", which, 16384, mpath)
    return [] if got == fr else ["C09.recheck-after-create (%r vs %r)" % (got, fr)]


def canaries(tier):
    return [
        ("utils: filelist_total memoised per path again", {"utils": [("def filelist_total(pathstring: str)", "@Memo\ndef filelist_total(pathstring: str)")]},
         ["create-add-create.1", "create-delete-create.2a", "create-add-recheck.v1"]),
        ("hasher: root of an all-zero piece cached on the class regardless of piece length", {"hasher": [(
            "            pad_piece = [bytes(HASH_SIZE) for _ in range(self.num_blocks)]\n            for _ in range(remainder):\n                self.layer_hashes.append(merkle_root(pad_piece))",
            "            if not hasattr(HasherV2, \"_pad\"):\n                HasherV2._pad = merkle_root([bytes(HASH_SIZE) for _ in range(self.num_blocks)])\n            for _ in range(remainder):\n                self.layer_hashes.append(HasherV2._pad)")]},
         ["create.2c-then-2c.P-changes.3pieces"]),
        ("recheck: piece length remembered on the class from the first metafile", {"recheck": [(
            "        self.piece_length = self.info[\"piece length\"]\n", "        Checker._pl = getattr(Checker, \"_pl\", None) or self.info[\"piece length\"]\n        self.piece_length = Checker._pl\n")]},
         ["recheck-recheck.*", "create-*-recheck.*"]),
    ]


if __name__ == "__main__":
    from harness import common
    raise SystemExit(common.main("harness.c09"))
