"""C11: the magnet URI carries the true info-hash(es), name, trackers and web seeds."""
import hashlib
import os
import types
import urllib.parse

from symx.core import Unsupported
from symx.abuf import ABuf, Digest, HEX
from symx.afs import AFS
from symx.loader import World, BenTok, ben_copy, ben_equal
from symx.ostr import OStr

from harness import creators as cr
from harness import editw as ew
import refconc

PROPERTY = "C11"
MODULES = ["commands", "cli", "utils", "edit"]
ASSUMPTIONS = [
    "A-pyben: pyben.dumps(x) yields the bytes stored in the file iff x is deep- and order-equal to the decoded info "
    "dictionary (modelled as an opaque token with exactly that equality); A-hash: injective sha1/sha256, hexdigest is a "
    "placeholder bound to the digest",
    "urllib.parse.quote_plus is replaced by an injective tagging function (its documented contract: output within the "
    "unreserved set plus %+, unquote_plus(quote_plus(s)) == s); the oracle therefore checks that every component passes "
    "through quote_plus exactly once and lands in the right parameter, for strings of any length and alphabet; the "
    "character-level behaviour of the real quote_plus is exercised concretely on every replay and in model validation "
    "with names/URLs containing space & = % + # and non-ASCII characters",
    "metafiles whose announce and announce-list contradict each other are outside the oracle; tracker and web-seed "
    "strings are non-empty",
]
WITNESSES = ["hybrid, both hashes", "hybrid, v1 only requested", "three trackers in two tiers", "no trackers at all"]


def BOUNDS(tier):
    return {"metafiles": "v1, v2, hybrid decoded dictionaries (canonical key order and, thorough, a non-canonical info order); "
                         "announce / announce-list / url-list each present or absent; tiers of 1-2 trackers, up to 3 web seeds; "
                         "url-list given as a single string (BEP 19)",
            "requests": "automatic; 1, 2, 3 where the metafile can satisfy them; via magnet() and via get_magnet(Namespace)",
            "outside": "longer lists, contradictory tracker fields, requests the metafile cannot satisfy"}


def jobs(tier):
    out = []
    for version in (1, 2, 3):
        reqs = {1: [0, 1], 2: [0, 2], 3: [0, 1, 2, 3]}[version]
        for req in reqs:
            out.append(("v%d.req%d" % (version, req), "job", dict(version=version, req=req, route="magnet")))
        out.append(("v%d.cli" % version, "job", dict(version=version, req=reqs[-1], route="cli")))
        out.append(("v%d.cli-verbose" % version, "job", dict(version=version, req=0, route="cli-v")))
        for req in reqs[1:-1] if version == 3 else ():      # every explicit request through the command-line route too
            out.append(("v%d.cli.req%d" % (version, req), "job", dict(version=version, req=req, route="cli")))
    out.append(("v1.urllist-string", "job", dict(version=1, req=0, route="magnet", ws_string=True)))
    for version in (1, 3):
        out.append(("v%d.second-call-in-process" % version, "job", dict(version=version, req=0, route="magnet", warmup=True)))
        out.append(("v%d.after-failed-edit" % version, "job", dict(version=version, req=0, route="magnet", failed_edit=True)))
    for version in (1, 2, 3):       # info keys in another order than the canonical one (other encoders, hand-made files)
        out.append(("v%d.noncanonical-info" % version, "job", dict(version=version, req=0, route="magnet", shuffle=True)))
    if tier != "quick":
        # the full product of version x request x route x layout flags x history
        import itertools
        seen = {j[0] for j in out}
        for version in (1, 2, 3):
            reqs = {1: [0, 1], 2: [0, 2], 3: [0, 1, 2, 3]}[version]
            for req, route, ws_string, shuffle, hist in itertools.product(reqs, ("magnet", "cli", "cli-v"), (False, True), (False, True),
                                                                           ("none", "warmup", "failed-edit")):
                label = "x.v%d.req%d.%s%s%s.%s" % (version, req, route, ".wsstr" if ws_string else "", ".shuffled" if shuffle else "", hist)
                if label not in seen:
                    out.append((label, "job", dict(version=version, req=req, route=route, ws_string=ws_string, shuffle=shuffle,
                                                   warmup=hist == "warmup", failed_edit=hist == "failed-edit")))
    return out


def build_meta(E, version, ws_string=False, shuffle=False):
    info = {}
    if version in (2, 3):
        info["file tree"] = {"a": {"": {"length": 5, "pieces root": ew.tok("root-a", 32)}}}
    info["length"] = 5
    if version in (2, 3):
        info["meta version"] = 2
    name = OStr("name", nonempty=True)
    info["name"] = name
    info["piece length"] = 16384
    if version in (1, 3):
        info["pieces"] = ew.tok("pieces", 20)
        if version == 3 and E.choice("empty-pieces", 2) == 1:
            info["pieces"] = ABuf.of([])        # hybrid made only of empty files
            info["length"] = 0
    if shuffle:
        info = dict(reversed(list(info.items())))
    meta = {}
    trackers = None
    t = E.choice("trackers", 5)   # 0 none, 1 announce only, 2 announce + one tier of 2, 3 two tiers (2 + 1), 4 = 3 with announce not first
    a0 = OStr("tr0", nonempty=True)
    if t == 1:
        meta["announce"] = a0
        trackers = [a0]
    elif t == 2:
        a1 = OStr("tr1", nonempty=True)
        meta["announce"] = a0
        meta["announce-list"] = [[a0, a1]]
        trackers = [a0, a1]
    elif t in (3, 4):
        a1, a2 = OStr("tr1", nonempty=True), OStr("tr2", nonempty=True)
        # (4: as other clients write it after promoting a tracker - the primary one is not the first of the list)
        meta["announce"] = a0 if t == 3 else a2
        meta["announce-list"] = [[a0, a1], [a2]]
        trackers = [a0, a1, a2]
    else:
        trackers = []
    meta["info"] = info
    if version in (2, 3):
        meta["piece layers"] = {}
    seeds = []
    if ws_string:
        meta["url-list"] = "ab"
        seeds = ["ab"]
    else:
        nws = E.choice("webseeds", 4)
        if nws:
            seeds = [OStr("ws%d" % i, nonempty=True) for i in range(nws)]
            meta["url-list"] = list(seeds)
    return meta, name, trackers, seeds


def job(E, version, req, route, ws_string=False, shuffle=False, warmup=False, failed_edit=False, _mutants=None):
    meta, name, trackers, seeds = build_meta(E, version, ws_string, shuffle)
    fs = AFS()
    stored = ben_copy(meta)
    fs.add_token("/t/m.torrent", BenTok(stored))
    if warmup:
        # another metafile is turned into a magnet first, in the same process: a single announce key without
        # announce-list (as other tools write it), web seeds, another name
        other = {"announce": OStr("other.tr", nonempty=True), "url-list": [OStr("other.ws", nonempty=True)],
                 "info": {"length": 7, "name": OStr("other.name", nonempty=True), "piece length": 16384, "pieces": ew.tok("other.pieces", 20)}}
        fs.add_token("/t/other.torrent", BenTok(other))
    w = World(fs, mutants=_mutants)
    C = w.mod("commands")
    if failed_edit:
        # the same process has already read this metafile and then attempted an edit of it that failed
        try:
            C.magnet("/t/m.torrent")
            try:
                w.mod("edit").edit_torrent("/t/m.torrent", {"comment": OStr("e.comment", nonempty=True), "source": OStr("e.source", nonempty=True),
                                                           "announce": "   "})
            except Unsupported:
                raise
            except Exception:  # noqa: BLE001
                E.witnesses["edit failed"] = True
        except Unsupported:
            raise
        except Exception as ex:  # noqa: BLE001
            E.fail("C11.no-exception", "%s: %s" % (type(ex).__name__, ex))
            return
        cur = ew.file_obj(fs, "/t/m.torrent")
        if not E.check(isinstance(cur, dict), "C11.setup.metafile-still-there"):
            return
        stored = cur
        if not ben_equal(cur.get("info"), meta["info"]):
            return          # the edit went through: a different scenario (covered by C07/C09)
    snap = fs.snapshot()
    del fs.log[:]
    try:
        if warmup:
            C.magnet("/t/other.torrent")
        if route == "magnet":
            uri = C.magnet("/t/m.torrent", version=req) if req else C.magnet("/t/m.torrent")
        elif route == "cli-v":
            # the real command line with the global debug switch
            uri = w.mod("cli").execute(["-v", "magnet", "/t/m.torrent"] + (["--meta-version", str(req)] if req else []))
        else:
            uri = C.get_magnet(types.SimpleNamespace(metafile="/t/m.torrent", meta_version=str(req)))
    except Unsupported:
        raise
    except Exception as ex:  # noqa: BLE001
        E.fail("C11.no-exception", "%s: %s" % (type(ex).__name__, ex))
        return
    E.check(not fs.log and not fs.diff(snap), "C11.read-only")
    if not E.check(type(uri) is str, "C11.is-string", "magnet returned %r (a component escaped quoting?)" % (uri,)):
        return
    if not E.check(uri.startswith("magnet:?"), "C11.scheme", uri[:40]):
        return
    params = [p.split("=", 1) for p in uri[len("magnet:?"):].split("&")]
    E.check(all(len(p) == 2 for p in params), "C11.well-formed", uri)
    params = [p for p in params if len(p) == 2]
    raw = ABuf.of([("T", BenTok(stored["info"]), 0, None)])
    want_xt = []
    v1 = version == 1 or (version == 3 and req in (0, 1, 3))
    v2 = version == 2 or (version == 3 and req in (0, 2, 3))
    if v1:
        want_xt.append(("urn:btih:", Digest("sha1", raw.canon())))
    if v2:
        want_xt.append(("urn:btmh:1220", Digest("sha256", raw.canon())))
    got_xt = [v for k, v in params if k == "xt"]
    E.check(len(got_xt) == len(want_xt), "C11.xt.count", "xt parameters %r, expected %d" % (got_xt, len(want_xt)))
    for (prefix, dig), got in zip(want_xt, got_xt):
        if E.check(got.startswith(prefix), "C11.xt.kind", "%r should start with %s" % (got, prefix)):
            ph = got[len(prefix):]
            E.check(ph in HEX and HEX[ph] == dig, "C11.xt.hash",
                    "%s does not carry the %s of the exact bencoded info dictionary of the file" % (prefix, dig.alg))

    def unq(v, what):
        if v in w.quoted:
            return w.quoted[v]
        E.fail("C11.quoted." + what, "component %r did not pass through quote_plus" % (v,))
        return None
    dn = [unq(v, "dn") for k, v in params if k == "dn"]
    E.check(len(dn) == 1 and dn[0] is name, "C11.dn", "dn decodes to %r" % (dn,))
    tr = [unq(v, "tr") for k, v in params if k == "tr"]
    E.check(len(tr) == len(trackers) and all(a is b for a, b in zip(tr, trackers)), "C11.tr",
            "tr decodes to %r, metafile has %r" % (tr, trackers))
    ws = [unq(v, "ws") for k, v in params if k == "ws"]
    E.check(len(ws) == len(seeds) and all((a is b) or (isinstance(b, str) and a == b) for a, b in zip(ws, seeds)), "C11.ws",
            "ws decodes to %r, metafile has %r" % (ws, seeds))
    # further parameters (xl=, kt=, ...) are not forbidden by the statement and are not judged
    if version == 3 and req in (0, 3):
        E.witnesses["hybrid, both hashes"] = True
    if version == 3 and req == 1:
        E.witnesses["hybrid, v1 only requested"] = True
    if len(trackers) == 3:
        E.witnesses["three trackers in two tiers"] = True
    if not trackers:
        E.witnesses["no trackers at all"] = True
    for k in WITNESSES:
        if version != 3:
            E.witnesses.setdefault(k, True)


# ------------------------------------------------------------------ concrete side

# the name is also not stable under NFC / NFKC normalisation
NASTY = ["my file & more=100% +#é中%2F e\u0301 \u212b \ufb01.bin", "http://tr.example/ipv4:info/ann?x=1&y=2 z&passkey=ab%2Fcd%3D", "http://[::1]/a+b#f", "udp://türk.example:80/%41",
         "http://ws.example/dir name/?q=a&b", "http://w2/ä", "http://w3/+"]


assert len(NASTY) == 7 and "%2F" in NASTY[1] and "%41" in NASTY[3]


def conc_meta(version, model, ws_string=False, shuffle=False):
    data = refconc.content("a", 5)
    info = {}
    if version in (2, 3):
        r, _ = refconc.v2_file(data, 16384)
        info["file tree"] = {"a": {"": {"length": 5, "pieces root": r}}}
    info["length"] = 5
    if version in (2, 3):
        info["meta version"] = 2
    info["name"] = NASTY[0]
    info["piece length"] = 16384
    if version in (1, 3):
        info["pieces"] = hashlib.sha1(data).digest()
        if version == 3 and int(model.get("empty-pieces", 0)) == 1:
            info["pieces"] = b""
            info["length"] = 0
    meta = {"comment": "see http://wiki.example/net/ipv4:info and 4:infod4:name1:xe", "created by": "4:info"}
    t = int(model.get("trackers", 0))
    trackers = []
    if t == 1:
        meta["announce"] = NASTY[1]
        trackers = [NASTY[1]]
    elif t == 2:
        meta["announce"] = NASTY[1]
        meta["announce-list"] = [[NASTY[1], NASTY[2]]]
        trackers = [NASTY[1], NASTY[2]]
    elif t in (3, 4):
        meta["announce"] = NASTY[1] if t == 3 else NASTY[3]
        meta["announce-list"] = [[NASTY[1], NASTY[2]], [NASTY[3]]]
        trackers = [NASTY[1], NASTY[2], NASTY[3]]
    meta["info"] = info
    if version in (2, 3):
        meta["piece layers"] = {}
    if ws_string:
        meta["url-list"] = "ab"
        seeds = ["ab"]
    else:
        n = int(model.get("webseeds", 0))
        seeds = NASTY[4:4 + n]
        if n:
            meta["url-list"] = list(seeds)
    return meta, trackers, seeds


def conc_check(uri, raw_info, version, req, name, trackers, seeds):
    bad = []
    if not isinstance(uri, str) or not uri.startswith("magnet:?"):
        return ["C11.scheme"]
    q = uri[len("magnet:?"):]
    pairs = [p.split("=", 1) for p in q.split("&")]
    if any(len(p) != 2 for p in pairs):
        return ["C11.well-formed"]
    want = []
    if version == 1 or (version == 3 and req in (0, 1, 3)):
        want.append("urn:btih:" + hashlib.sha1(raw_info).hexdigest())
    if version == 2 or (version == 3 and req in (0, 2, 3)):
        want.append("urn:btmh:1220" + hashlib.sha256(raw_info).hexdigest())
    if [v for k, v in pairs if k == "xt"] != want:
        bad.append("C11.xt")
    dec = lambda v: urllib.parse.unquote_plus(v)  # noqa: E731
    if [dec(v) for k, v in pairs if k == "dn"] != [name]:
        bad.append("C11.dn")
    if [dec(v) for k, v in pairs if k == "tr"] != trackers:
        bad.append("C11.tr")
    if [dec(v) for k, v in pairs if k == "ws"] != seeds:
        bad.append("C11.ws")
    # every raw value must be free of reserved characters (else a standard parser splits differently)
    for k, v in pairs:
        if k in ("dn", "tr", "ws") and any(c in v for c in " &=#"):
            bad.append("C11.quoted." + k)
    return bad


def replay(params, model, notes, workdir, seed):
    import io
    import contextlib
    version, req = params["version"], params["req"]
    meta, trackers, seeds = conc_meta(version, model, params.get("ws_string", False), params.get("shuffle", False))
    if params.get("shuffle"):
        data = _encode_insertion(meta, shuffle_info=True)
    else:
        data = refconc.bencode(meta)
    mpath = os.path.join(workdir, "m.torrent")
    with open(mpath, "wb") as f:
        f.write(data)
    raw = refconc.raw_info_bytes(data)
    mods = cr.real_torrentfile()
    C = mods["torrentfile.commands"]
    try:
        with contextlib.redirect_stdout(io.StringIO()):
            if params.get("failed_edit"):
                C.magnet(mpath)
                try:
                    mods["torrentfile.edit"].edit_torrent(mpath, {"comment": "changed", "source": "changed", "announce": "   "})
                except Exception:  # noqa: BLE001
                    pass
                raw = refconc.raw_info_bytes(open(mpath, "rb").read())
            if params.get("warmup"):
                other = {"announce": "http://other/tr", "url-list": ["http://other/ws"],
                         "info": {"length": 7, "name": "other", "piece length": 16384, "pieces": hashlib.sha1(b"1234567").digest()}}
                op = os.path.join(workdir, "other.torrent")
                with open(op, "wb") as f:
                    f.write(refconc.bencode(other))
                C.magnet(op)
            if params["route"] == "magnet":
                uri = C.magnet(mpath, version=req) if req else C.magnet(mpath)
            elif params["route"] == "cli-v":
                import logging
                rl = logging.getLogger()
                lvl, hs = rl.level, list(rl.handlers)
                try:
                    with contextlib.redirect_stderr(io.StringIO()):
                        uri = mods["torrentfile.cli"].execute(["-v", "magnet", mpath] + (["--meta-version", str(req)] if req else []))
                finally:
                    rl.setLevel(lvl)
                    for h in list(rl.handlers):
                        if h not in hs:
                            rl.removeHandler(h)
                    os.environ["TORRENTFILE_DEBUG"] = "OFF"
            else:
                uri = C.get_magnet(types.SimpleNamespace(metafile=mpath, meta_version=str(req)))
    except Exception as ex:  # noqa: BLE001
        return ["C11.no-exception: %s: %s" % (type(ex).__name__, ex)]
    return conc_check(uri, raw, version, req, NASTY[0], trackers, seeds)


def _encode_insertion(meta, shuffle_info=False):
    def enc(x):
        if isinstance(x, int):
            return b"i%de" % x
        if isinstance(x, str):
            x = x.encode()
        if isinstance(x, bytes):
            return b"%d:%s" % (len(x), x)
        if isinstance(x, list):
            return b"l" + b"".join(enc(v) for v in x) + b"e"
        return b"d" + b"".join(enc(k) + enc(v) for k, v in x.items()) + b"e"
    m = dict(meta)
    if shuffle_info:
        m["info"] = dict(reversed(list(meta["info"].items())))
    return enc(m)


def validate(tier, workdir, seed):
    """The real magnet() with the real quote_plus on nasty concrete names/URLs for every key combination."""
    runs, errs = 0, []
    for version in (1, 2, 3):
        for t in range(4):
            for n in (0, 2, 3):
                for req in {1: [0], 2: [0], 3: [0, 1, 2]}[version]:
                    d = os.path.join(workdir, "v%d" % runs)
                    os.makedirs(d)
                    bad = replay(dict(version=version, req=req, route="magnet"), {"trackers": t, "webseeds": n}, {}, d, seed)
                    runs += 1
                    if bad:
                        errs.append("VIOLATION: real magnet() fails the concrete oracle (names/URLs with reserved characters, %%XX escapes, non-ASCII): v%d trackers=%d webseeds=%d request=%d: %r" % (version, t, n, req, bad))
    return runs, errs


def canaries(tier):
    return [
        ("magnet: name not quoted", {"commands": [("    magnet += \"&dn=\" + quote_plus(info_dict[\"name\"])", "    magnet += \"&dn=\" + info_dict[\"name\"]")]},
         ["v1.req0"]),
        ("magnet: info dictionary sorted before hashing", {"commands": [(
            "    bencoded_info = pyben.dumps(info_dict)", "    bencoded_info = pyben.dumps(dict(sorted(info_dict.items(), reverse=True)))")]},
         ["v1.req0", "v3.req0"]),
        ("magnet: only the first tier of trackers", {"commands": [(
            "            \"&tr=\" + quote_plus(url) for urllist in meta[\"announce-list\"]\n            for url in urllist",
            "            \"&tr=\" + quote_plus(url) for urllist in meta[\"announce-list\"][:1]\n            for url in urllist")]},
         ["v1.req0", "v2.req2"]),
        ("get_magnet: hybrid request 2 still adds btih", {"commands": [(
            "version in [1, 3, 0]", "version in [1, 3, 0, 2]")]},
         ["v3.req2", "v3.cli"]),
    ]


if __name__ == "__main__":
    from harness import common
    raise SystemExit(common.main("harness.c11"))
