"""C03: hybrid metafile: the v1 view and the v2 view describe the same payload."""
import os

from symx.core import tb, disj
from symx.loader import World

from harness import creators as cr
from harness import oracles as orc
from harness.creators import SHAPES, BLOCK
import refconc

PROPERTY = "C03"
MODULES = ["torrent", "hasher", "utils", "mixins", "cli", "commands"]
ASSUMPTIONS = [
    "A-hash model (injective sha1/sha256); pass verdicts need no assumption on contents",
    "piece length is a configuration ({16,32,64} KiB); sizes and listing order are solver variables",
    "AFS: regular files, no short reads; progress bars stubbed",
]
WITNESSES = ["file needs padding", "file ends on piece boundary", "empty file", "single file with short last piece"]


def BOUNDS(tier):
    return {"creators": "TorrentAssembler(meta_version=3), TorrentFileHybrid",
            "single file": "size in [1, 4P], P in {16,32,64} KiB",
            "trees": "<= 3 files, sizes in [0, 2P] (thorough: 3P, 4-file shape)",
            "outside": "other piece lengths, more files, larger sizes"}


def jobs(tier):
    out = []
    q = tier == "quick"
    for shp in cr.scheme_shapes(["flat2", "nested3"], tier):
        for which in ("3a", "3c"):
            out.append(("%s.%s.P16384" % (which, shp), "job", dict(which=which, shape=shp, P=16384, K=1 if shp.startswith("nested3") else 2, order="reversed")))
    for which in ("3a", "3c"):       # always in the quick tier: names holding the other platform's separator (v1 path lists vs v2 tree keys)
        out.append(("%s.flat2~backslash.P16384" % which, "job", dict(which=which, shape="flat2~backslash", P=16384, K=1, order="reversed")))
        out.append(("%s.nested3~backslash.P16384" % which, "job", dict(which=which, shape="nested3~backslash", P=16384, K=1, order="reversed")))
    from harness import matrix
    for which in ("3a", "3c"):        # always: contents with a zero tail from a solver-chosen offset
        for tree in ("flat2", "single"):
            row = {"tree": tree, "spelling": "abs", "route": "path", "progress": 0, "plen": "str32768", "content": "zero-tail", "extra": "none", "history": "none"}
            out.append(("zero-tail.%s.%s" % (which, tree), "job_matrix", dict(which=which, row=row)))
    for i, row in matrix.rows(tier):
        for which in (("3a", "3c") if not q else (("3a",) if i % 2 else ("3c",))):
            out.append(("matrix.%s.%s" % (which, matrix.label(i, row)), "job_matrix", dict(which=which, row=row)))
    # a second hybrid creation in the same process with another piece length (shared buffers, memo tables)
    for which in ("3a", "3c"):
        out.append(("%s.second.P16384-then-P65536" % which, "job_second", dict(which=which, P1=16384, P2=65536)))
        out.append(("%s.second.P32768-then-P16384" % which, "job_second", dict(which=which, P1=32768, P2=16384)))
    for which in ("3a", "3c"):
        for P in (16384, 32768, 65536):
            out.append(("%s.single.P%d" % (which, P), "job", dict(which=which, shape="single", P=P, K=4, order="reversed")))
        out.append(("%s.dir1.P32768" % which, "job", dict(which=which, shape="dir1", P=32768, K=3, order="reversed")))
        out.append(("%s.flat2.P32768" % which, "job", dict(which=which, shape="flat2", P=32768, K=2 if q else 3, order="reversed")))
        out.append(("%s.single.P32768.align-flag" % which, "job", dict(which=which, shape="single", P=32768, K=3, order="reversed", align=True)))
        out.append(("%s.flat2.P16384.align-flag" % which, "job", dict(which=which, shape="flat2", P=16384, K=2, order="reversed", align=True)))
        out.append(("%s.nested3.P16384" % which, "job", dict(which=which, shape="nested3", P=16384, K=2, order="symbolic" if which == "3a" else "reversed")))
        out.append(("%s.order2.P16384" % which, "job", dict(which=which, shape="order2", P=16384, K=2, order="reversed")))
        if not q:
            out.append(("%s.nested4.P16384" % which, "job", dict(which=which, shape="nested4", P=16384, K=2, order="reversed")))
            out.append(("%s.flat3.P65536" % which, "job", dict(which=which, shape="flat3", P=65536, K=2, order="reversed")))
    return out


def job(E, which, shape, P, K, order, align=False, _mutants=None):
    fs, sizes = cr.make_fs(E, shape, K, P, order=order, lo=1 if shape == "single" else 0)
    if shape != "single":
        E.assume(disj(*[s > 0 for s in sizes.values()]))
    w = World(fs, mutants=_mutants)
    try:
        # the align option is documented as ignored outside v1: passing it must not change a hybrid
        t = cr.create(w, which, path="/data/name", piece_length=P, progress=0, **({"align": True} if align else {}))
    except Exception as ex:  # noqa: BLE001
        E.fail("C03.no-exception", "%s: %s" % (type(ex).__name__, ex))
        return
    orc.oracle_hybrid_v1(E, t.meta, sizes, P, shape, "C03")
    for s in sizes.values():
        E.witness("file needs padding", tb(s > 0) and s % P != 0)
        E.witness("file ends on piece boundary", s == P)
        E.witness("empty file", s == 0)
        if shape == "single":
            E.witness("single file with short last piece", s == P + 1)
        else:
            E.witnesses.setdefault("single file with short last piece", True)


def job_matrix(E, which, row, _mutants=None):
    from harness import matrix
    matrix.run(E, which, row, lambda e, meta, sizes, Pn, shape: orc.oracle_hybrid_v1(e, meta, sizes, Pn, shape, "C03.matrix"),
               "C03.matrix", _mutants=_mutants)


def job_second(E, which, P1, P2, _mutants=None):
    from symx.afs import AFS
    fs = AFS(order="reversed")
    t0 = E.int("t0", 1, 2 * P1)
    fs.add("/first/other/x", ("g", 0), t0)
    fs.add("/first/other/y", ("g", 1), 5)
    shape = "flat2"
    rels = SHAPES[shape]
    sizes = {}
    for i, r in enumerate(rels):
        sizes[r] = E.int("s%d" % i, 0, P2 + 5)
        fs.add("/data/" + r, ("f", i), sizes[r])
    E.assume(disj(*[s > 0 for s in sizes.values()]))
    E.note("shape", shape)
    w = World(fs, mutants=_mutants)
    try:
        cr.create(w, which, path="/first/other", piece_length=P1, progress=0)
        t = cr.create(w, which, path="/data/name", piece_length=P2, progress=0)
    except Exception as ex:  # noqa: BLE001
        E.fail("C03.no-exception", "%s: %s" % (type(ex).__name__, ex))
        return
    orc.oracle_hybrid_v1(E, t.meta, sizes, P2, shape, "C03.second")
    E.witness("file needs padding", tb(sizes[rels[0]] > 0) and sizes[rels[0]] % P2 != 0)


def conc_hybrid(meta, data, P, shape):
    info = meta["info"]
    order = cr.tree_order(SHAPES[shape])
    bad = cr.conc_v1(info, None, data, P, order, hybrid=True)
    return bad


def replay(params, model, notes, workdir, seed):
    if "row" in params:
        from harness import matrix
        row = params["row"]
        meta, data, Pn = matrix.replay(params["which"], row, model, workdir, seed)
        if isinstance(meta, BaseException):
            return ["C03.matrix.no-exception: %s: %s" % (type(meta).__name__, meta)]
        return ["C03.matrix." + b for b in conc_hybrid(meta, data, Pn, row["tree"])]
    if "P1" in params:
        shape = "flat2"
        sizes = cr.concrete_sizes(shape, model)
        root, data = cr.materialize(workdir, shape, sizes, seed)
        refconc.write_file(os.path.join(workdir, "first", "other", "x"), refconc.content(("g", 0), int(model["t0"]), seed))
        refconc.write_file(os.path.join(workdir, "first", "other", "y"), refconc.content(("g", 1), 5, seed))
        mods = cr.real_torrentfile()
        T = mods["torrentfile.torrent"]
        import io
        import contextlib
        cls, mv = cr.CLS[params["which"]]
        try:
            with contextlib.redirect_stdout(io.StringIO()):
                for pth, P in ((os.path.join(workdir, "first", "other"), params["P1"]), (root, params["P2"])):
                    kw = dict(path=pth, piece_length=P, progress=0)
                    if mv is not None:
                        kw["meta_version"] = mv
                    t = getattr(T, cls)(**kw)
        except Exception as ex:  # noqa: BLE001
            return ["C03.no-exception: %s: %s" % (type(ex).__name__, ex)]
        return ["C03.second." + b for b in conc_hybrid(t.meta, data, params["P2"], shape)]
    shape, P = params["shape"], params["P"]
    sizes = cr.concrete_sizes(shape, model)
    root, data = cr.materialize(workdir, shape, sizes, seed)
    try:
        t = cr.real_create(params["which"], path=root, piece_length=P, **({"align": True} if params.get("align") else {}))
    except Exception as ex:  # noqa: BLE001
        return ["C03.no-exception: %s: %s" % (type(ex).__name__, ex)]
    return ["C03." + b for b in conc_hybrid(t.meta, data, P, shape)]


def validate(tier, workdir, seed):
    import random
    rnd = random.Random(seed + 303)
    runs, errs = 0, []
    for which in ("3a", "3c"):
        for shape, P in (("flat2", 32768), ("nested3", 16384)):
            n = len(SHAPES[shape])
            ss = [rnd.choice([0, 1, BLOCK + 1, P - 1, P, P + 1, 2 * P - 3]) for _ in range(n)]
            if not any(ss):
                ss[0] = 7
            pin = cr.Pinned({"s%d" % i: v for i, v in enumerate(ss)})
            fs, sizes = cr.make_fs(pin, shape, 4, P)
            t = cr.create(World(fs), which, path="/data/name", piece_length=P, progress=0)
            files = {("f", i): refconc.content(("f", i), v, seed) for i, v in enumerate(ss)}
            model_meta = cr.canon_meta(t.meta["info"], files)
            d = os.path.join(workdir, "val%d" % runs)
            root, data = cr.materialize(d, shape, {r: ss[i] for i, r in enumerate(SHAPES[shape])}, seed)
            real = cr.norm_real(cr.real_create(which, path=root, piece_length=P).meta["info"])
            runs += 1
            if model_meta != real:
                errs.append("model != real for %s %s P=%d sizes=%r" % (which, shape, P, ss))
    return runs, errs


def canaries(tier):
    return [
        ("FileHasher: padding length off by the last block", {"hasher": [(
            "            total += size\n            plength -= size\n            blocks.append(sha256(block[:size]).digest())\n            if self.hybrid:",
            "            total += size\n            plength -= BLOCK_SIZE\n            blocks.append(sha256(block[:size]).digest())\n            if self.hybrid:")]},
         ["3a.flat2*", "3a.nested3*"]),
        ("TorrentFileHybrid: padding entry dropped", {"torrent": [(
            "            if file_hash.padding_file:\n                self.files.append(file_hash.padding_file)", "")]},
         ["3c.flat2*"]),
        ("TorrentAssembler: padding entry placed before the file", {"torrent": [(
            "            if self.hybrid and hasher.padding_file:\n                self.files.append(hasher.padding_file)",
            "            if self.hybrid and hasher.padding_file:\n                self.files.insert(len(self.files) - 1, hasher.padding_file)")]},
         ["3a.flat2*"]),
    ]


if __name__ == "__main__":
    from harness import common
    raise SystemExit(common.main("harness.c03"))
