#!/bin/sh
# Offline setup: overlay venv on top of /venv (which has torrentfile's own
# dependencies) with z3-solver, crosshair-tool and cvc5 from the wheelhouse.
set -e
cd "$(dirname "$0")"
V=/verif/.venv
if [ ! -x "$V/bin/python" ] || ! "$V/bin/python" -c "import z3, crosshair, pyben" 2>/dev/null; then
    rm -rf "$V"
    /venv/bin/python -m venv "$V"
    SP=$("$V/bin/python" -c "import sysconfig; print(sysconfig.get_paths()['purelib'])")
    printf '/venv/lib/python3.12/site-packages\n/repo\n' > "$SP/_overlay.pth"
    PIP_NO_INDEX=1 "$V/bin/pip" install -q --no-index --find-links /opt/veriftools/wheels z3-solver crosshair-tool cvc5 || \
    PIP_NO_INDEX=1 "$V/bin/pip" install -q --no-index --find-links /opt/veriftools/wheels z3-solver crosshair-tool
fi
"$V/bin/python" -c "import z3, pyben; print('setup ok: z3', z3.get_version_string())"
mkdir -p /verif/evidence/replays
