#!/usr/bin/env python3
"""seed_pipeline.py <PROP> [--checks C01,C08] : confirm the sub-agent's seeded changes for PROP in a scratch
worktree (suite passes, demo fails with / passes without), run the registered quick check(s) against each with the
change applied to /repo (undone straight afterwards), and file the kept ones under /verif/seeded/<PROP>-<N>/."""
import json
import os
import shutil
import subprocess
import sys

ROOT = os.path.dirname(os.path.dirname(os.path.abspath(__file__)))


def sh(cmd, **kw):
    return subprocess.run(cmd, shell=True, capture_output=True, text=True, **kw)


def confirm(seed, n):
    wt = "/tmp/confirm-%d" % os.getpid()
    sh("git -C /repo worktree remove --force %s" % wt)
    r = sh("git -C /repo worktree add -q %s HEAD" % wt)
    if r.returncode:
        return {"ok": False, "why": "worktree: " + r.stderr}
    try:
        r = sh("git apply %s/change_%d.diff" % (seed, n), cwd=wt)
        if r.returncode:
            return {"ok": False, "why": "apply failed: " + r.stderr[-300:]}
        t = sh("/venv/bin/python -m pytest -q -p no:cacheprovider --timeout=900 -x 2>&1 | tail -1", cwd=wt)
        suite = t.stdout.strip()
        w = sh("/venv/bin/python %s/demo_%d.py %s" % (seed, n, wt), cwd="/tmp")
        sh("git checkout -q -- . && git clean -fdq", cwd=wt)
        wo = sh("/venv/bin/python %s/demo_%d.py %s" % (seed, n, wt), cwd="/tmp")
        ok = ("passed" in suite and "failed" not in suite) and w.returncode == 1 and wo.returncode == 0
        return {"ok": ok, "suite": suite, "demo_with_change_exit": w.returncode, "demo_without_exit": wo.returncode,
                "demo_output": (w.stdout + w.stderr).strip()[-400:]}
    finally:
        sh("git -C /repo worktree remove --force %s" % wt)


def evaluate(diff, checks, tier="quick", scratch=False):
    """Default: apply to /repo, run, undo (the prescribed way).  --scratch: apply to a scratch worktree and point the
    checks at it through VERIF_REPO (used only while long runs against /repo are in progress)."""
    res = {}
    if scratch:
        wt = "/tmp/evalrepo-%d" % os.getpid()
        sh("git -C /repo worktree remove --force %s" % wt)
        r = sh("git -C /repo worktree add -q %s HEAD" % wt)
        r = sh("git apply %s" % diff, cwd=wt)
        if r.returncode:
            sh("git -C /repo worktree remove --force %s" % wt)
            return {"error": "apply failed: " + r.stderr}
        env = dict(os.environ, VERIF_REPO=wt, VERIF_NO_EVIDENCE="1")
        try:
            for c in checks:
                p = subprocess.run("%s/.venv/bin/python %s/run.py %s --tier %s" % (ROOT, ROOT, c, tier), shell=True, capture_output=True,
                                   text=True, cwd=ROOT, env=env)
                lines = [l[:400] for l in p.stdout.splitlines() if l.startswith(("VIOLATION", "INCONCLUSIVE", "KNOWN", "  job="))]
                res[c] = {"exit": p.returncode, "lines": lines[:8], "scratch": True}
        finally:
            sh("git -C /repo worktree remove --force %s" % wt)
        return res
    assert not sh("git -C /repo status --porcelain").stdout.strip(), "/repo not clean"
    r = sh("git -C /repo apply %s" % diff)
    if r.returncode:
        return {"error": "apply failed: " + r.stderr}
    try:
        for c in checks:
            p = sh("%s/.venv/bin/python %s/run.py %s --tier %s" % (ROOT, ROOT, c, tier), cwd=ROOT)
            lines = [l[:400] for l in p.stdout.splitlines() if l.startswith(("VIOLATION", "INCONCLUSIVE", "KNOWN", "  job="))]
            res[c] = {"exit": p.returncode, "lines": lines[:8]}
    finally:
        sh("git -C /repo checkout -q -- . && git -C /repo clean -fdq")
        sh("git checkout -q -- evidence", cwd=ROOT)
    return res


def main():
    prop = sys.argv[1]
    checks = [prop]
    tier = "quick"
    if "--checks" in sys.argv:
        checks = sys.argv[sys.argv.index("--checks") + 1].split(",")
    if "--tier" in sys.argv:
        tier = sys.argv[sys.argv.index("--tier") + 1]
    seed = "/tmp/seed-%s" % prop
    prefix = prop
    if "--dir" in sys.argv:
        seed = sys.argv[sys.argv.index("--dir") + 1]
    if "--prefix" in sys.argv:
        prefix = sys.argv[sys.argv.index("--prefix") + 1]
    for n in (1, 2):
        if not os.path.exists("%s/change_%d.diff" % (seed, n)):
            continue
        c = confirm(seed, n)
        print("%s-%d confirm: %s" % (prefix, n, json.dumps(c)[:500]))
        if not c["ok"]:
            continue
        ev = evaluate("%s/change_%d.diff" % (seed, n), checks, tier, scratch="--scratch" in sys.argv)
        print("%s-%d checks: %s" % (prefix, n, json.dumps(ev)[:900]))
        dst = os.path.join(ROOT, "seeded", "%s-%d" % (prefix, n))
        os.makedirs(dst, exist_ok=True)
        shutil.copy("%s/change_%d.diff" % (seed, n), dst + "/patch.diff")
        shutil.copy("%s/demo_%d.py" % (seed, n), dst + "/demo.py")
        meta = {}
        try:
            meta = json.load(open("%s/meta_%d.json" % (seed, n)))
        except Exception:
            pass
        old = {}
        if os.path.exists(dst + "/meta.json"):
            old = json.load(open(dst + "/meta.json"))
        hist = old.get("check_history", [])
        hist.append({"tier": tier, "results": ev})
        meta.update({"id": "%s-%d" % (prefix, n), "breaks_property": prop, "origin": "independent sub-agent given only the property text",
                     "confirmed": c, "ran": "tools/seed_pipeline.py: scratch worktree confirm (suite + demo with/without), then "
                     "git -C /repo apply; run.py <check> --tier %s; git -C /repo checkout -- ." % tier,
                     "check_results": ev, "check_history": hist,
                     "detected": any(v.get("exit") == 1 and any(l.startswith("VIOLATION") for l in v.get("lines", []))
                                     for v in ev.values() if isinstance(v, dict))})
        json.dump(meta, open(dst + "/meta.json", "w"), indent=1)


if __name__ == "__main__":
    main()
