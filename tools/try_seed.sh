#!/bin/sh
# try_seed.sh <seed-id> <check> [extra run.py args]: run a check against a scratch worktree of /repo with the seeded
# change applied (VERIF_REPO), without touching /repo and without writing evidence.
id=$1; chk=$2; shift 2
wt=/tmp/tryseed-$$
git -C /repo worktree add -q $wt HEAD || exit 3
case "$id" in */*) patch=$id;; *) patch=/verif/seeded/$id/patch.diff;; esac
(cd $wt && git apply $patch) || { git -C /repo worktree remove --force $wt; exit 3; }
VERIF_REPO=$wt VERIF_NO_EVIDENCE=1 /verif/.venv/bin/python /verif/run.py $chk --tier ${TIER:-quick} "$@" 2>&1 | grep -v "^\[" | cut -c1-${CUT:-330} | head -${HEAD:-12}
git -C /repo worktree remove --force $wt
