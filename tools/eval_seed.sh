#!/bin/sh
# eval_seed.sh <diff> <PROP> [PROP...]: apply the diff to /repo, run the quick checks, undo.
set -u
DIFF=$1; shift
cd /repo
test -z "$(git status --porcelain)" || { echo "/repo not clean"; exit 9; }
git apply $DIFF || { echo APPLY-FAILED; exit 8; }
for P in "$@"; do
  /verif/.venv/bin/python /verif/run.py $P --tier ${TIER:-quick} > /tmp/eval-$P.log 2>&1; RC=$?
  echo "== $P exit=$RC"; grep -E "^VIOLATION|^INCONCLUSIVE|^KNOWN" /tmp/eval-$P.log | cut -c1-300 | head -6
done
git -C /repo checkout -q -- . ; git -C /repo clean -fdq
cd /verif && git checkout -q -- evidence 2>/dev/null
