#!/bin/sh
# confirm_seed.sh <seed-dir> <N>: in a scratch worktree, check that change_N.diff applies, the test-suite passes
# with it, and demo_N.py fails with the change and passes without it.
set -u
D=$1; N=$2
WT=/tmp/confirm-$$
git -C /repo worktree add -q $WT HEAD || exit 9
cd $WT
git apply $D/change_$N.diff || { echo "APPLY-FAILED"; cd /; git -C /repo worktree remove --force $WT; exit 8; }
/venv/bin/python -m pytest -q -p no:cacheprovider --timeout=900 -x 2>&1 | tail -1
/venv/bin/python $D/demo_$N.py $WT >/tmp/confirm-demo-with.txt 2>&1; W=$?
git checkout -q -- . ; git clean -fdq
/venv/bin/python $D/demo_$N.py $WT >/tmp/confirm-demo-without.txt 2>&1; WO=$?
echo "demo with change: exit $W ; without: exit $WO"
tail -2 /tmp/confirm-demo-with.txt
cd /; git -C /repo worktree remove --force $WT
