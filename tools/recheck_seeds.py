#!/usr/bin/env python3
"""recheck_seeds.py [glob]: run the registered quick check of every filed seeded change against a scratch worktree of
/repo with the change applied (VERIF_REPO; /repo itself is not touched, no evidence is written) and append the
outcome to the seed's meta.json (check_history) - used after the checks were strengthened."""
import fnmatch
import json
import os
import subprocess
import sys

ROOT = os.path.dirname(os.path.dirname(os.path.abspath(__file__)))


def sh(cmd, **kw):
    return subprocess.run(cmd, shell=True, capture_output=True, text=True, **kw)


def main():
    pat = sys.argv[1] if len(sys.argv) > 1 else "*"
    summary = []
    for sid in sorted(os.listdir(os.path.join(ROOT, "seeded"))):
        d = os.path.join(ROOT, "seeded", sid)
        if not fnmatch.fnmatch(sid, pat) or not os.path.exists(d + "/meta.json"):
            continue
        meta = json.load(open(d + "/meta.json"))
        if meta.get("superseded"):
            summary.append((sid, "superseded"))
            continue
        prop = meta.get("breaks_property") or sid[:3]
        wt = "/tmp/recheck-%d" % os.getpid()
        sh("git -C /repo worktree remove --force %s" % wt)
        sh("git -C /repo worktree add -q %s HEAD" % wt)
        r = sh("git apply %s/patch.diff" % d, cwd=wt)
        if r.returncode:
            sh("git -C /repo worktree remove --force %s" % wt)
            summary.append((sid, "does-not-apply"))
            continue
        env = dict(os.environ, VERIF_REPO=wt, VERIF_NO_EVIDENCE="1")
        p = subprocess.run("%s/.venv/bin/python %s/run.py %s --tier quick" % (ROOT, ROOT, prop), shell=True, capture_output=True, text=True,
                           cwd=ROOT, env=env)
        sh("git -C /repo worktree remove --force %s" % wt)
        lines = [l[:300] for l in p.stdout.splitlines() if l.startswith(("VIOLATION", "INCONCLUSIVE", "  job="))][:4]
        meta.setdefault("check_history", []).append({"tier": "quick", "recheck": True, "results": {prop: {"exit": p.returncode, "lines": lines, "scratch": True}}})
        hit = p.returncode == 1 and any(l.startswith("VIOLATION") for l in lines)
        meta["detected"] = meta.get("detected") or hit
        meta["detected_by_current_checks"] = hit
        json.dump(meta, open(d + "/meta.json", "w"), indent=1)
        summary.append((sid, "exit %d" % p.returncode))
        print(sid, p.returncode, flush=True)
    print(json.dumps(summary))


if __name__ == "__main__":
    main()
