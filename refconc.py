"""Independent concrete oracles used by replays and model validation:
BEP 3 / BEP 52 hashing on real bytes (hashlib), a strict canonical bencode
decoder / encoder, filesystem snapshots, deterministic generic file contents.
Nothing here imports torrentfile or symx.
"""
import hashlib
import os

BLOCK = 16384


def content(fid, size, seed=0):
    """Deterministic generic bytes for abstract file `fid`: never all-zero in
    any 1-byte window that matters (every byte is non-zero)."""
    out = bytearray()
    ctr = 0
    key = ("%s|%s" % (seed, fid)).encode()
    while len(out) < size:
        out += hashlib.sha256(key + ctr.to_bytes(8, "big")).digest()
        ctr += 1
    out = out[:size]
    # make every byte non-zero so that no region is all zeros (A-generic)
    return bytes((b or 0xA5) for b in out)


def flip(data, off):
    b = bytearray(data)
    b[off] ^= 0xFF
    if b[off] == 0:
        b[off] = 0x5A if data[off] != 0x5A else 0x3C
    return bytes(b)


def v1_pieces(stream, plen):
    return b"".join(hashlib.sha1(stream[i:i + plen]).digest() for i in range(0, len(stream), plen))


def _root(nodes):
    if len(nodes) == 1:
        return nodes[0]
    half = len(nodes) // 2
    return hashlib.sha256(_root(nodes[:half]) + _root(nodes[half:])).digest()


def _np2(n):
    return 1 << (n - 1).bit_length() if n > 1 else 1


def v2_file(data, plen):
    """(root, piece_layer_bytes or None) per BEP 52; (None, None) for empty."""
    if not data:
        return None, None
    lv = [hashlib.sha256(data[i:i + BLOCK]).digest() for i in range(0, len(data), BLOCK)]
    bpp = plen // BLOCK
    zero = bytes(32)
    if len(data) <= plen:
        return _root(lv + [zero] * (_np2(len(lv)) - len(lv))), None
    npieces = -(-len(lv) // bpp)
    width = bpp * _np2(npieces)
    lv = lv + [zero] * (width - len(lv))
    pieces = [_root(lv[i * bpp:(i + 1) * bpp]) for i in range(width // bpp)]
    return _root(pieces), b"".join(pieces[:npieces])


def v2_piece_hashes(data, plen):
    root, layer = v2_file(data, plen)
    if root is None:
        return []
    if layer is None:
        return [(root, len(data))]
    out = []
    for i in range(len(layer) // 32):
        out.append((layer[32 * i:32 * i + 32], min(plen, len(data) - i * plen)))
    return out


# ---- strict bencode ---------------------------------------------------------

class BencodeError(ValueError):
    pass


def bdecode_strict(data):
    """Decode canonical bencoding only: minimal integers/lengths, dictionary keys
    byte strings, unique, strictly ascending; nothing after the value.
    Strings stay bytes; dicts keep (ordered) bytes keys."""
    pos = 0

    def val():
        nonlocal pos
        if pos >= len(data):
            raise BencodeError("truncated at %d" % pos)
        c = data[pos:pos + 1]
        if c == b"i":
            end = data.index(b"e", pos)
            txt = data[pos + 1:end]
            if not txt or (txt != b"0" and (txt.lstrip(b"-")[:1] == b"0" or not txt.lstrip(b"-").isdigit())) \
                    or txt == b"-0" or txt.count(b"-") > (1 if txt[:1] == b"-" else 0):
                raise BencodeError("non-canonical integer %r at %d" % (txt, pos))
            pos = end + 1
            return int(txt)
        if c.isdigit():
            colon = data.index(b":", pos)
            txt = data[pos:colon]
            if not txt.isdigit() or (len(txt) > 1 and txt[:1] == b"0"):
                raise BencodeError("non-canonical length %r at %d" % (txt, pos))
            n = int(txt)
            if colon + 1 + n > len(data):
                raise BencodeError("string overruns at %d" % pos)
            pos = colon + 1 + n
            return data[colon + 1:colon + 1 + n]
        if c == b"l":
            pos += 1
            out = []
            while data[pos:pos + 1] != b"e":
                out.append(val())
            pos += 1
            return out
        if c == b"d":
            pos += 1
            out = {}
            last = None
            while data[pos:pos + 1] != b"e":
                if not data[pos:pos + 1].isdigit():
                    raise BencodeError("dictionary key is not a string at %d" % pos)
                k = val()
                if last is not None and not last < k:
                    raise BencodeError("dictionary keys not strictly ascending: %r then %r" % (last, k))
                last = k
                out[k] = val()
            pos += 1
            return out
        raise BencodeError("bad type byte %r at %d" % (c, pos))

    r = val()
    if pos != len(data):
        raise BencodeError("trailing data after top-level value at %d" % pos)
    return r


def bencode(x):
    """Reference canonical encoder (sorts dictionary keys by raw bytes)."""
    if isinstance(x, bool):
        raise BencodeError("bool")
    if isinstance(x, int):
        return b"i%de" % x
    if isinstance(x, str):
        x = x.encode("utf-8")
    if isinstance(x, (bytes, bytearray)):
        return b"%d:%s" % (len(x), bytes(x))
    if isinstance(x, (list, tuple)):
        return b"l" + b"".join(bencode(v) for v in x) + b"e"
    if isinstance(x, dict):
        items = sorted(((k.encode("utf-8") if isinstance(k, str) else bytes(k)), v) for k, v in x.items())
        return b"d" + b"".join(bencode(k) + bencode(v) for k, v in items) + b"e"
    raise BencodeError("cannot encode %r" % type(x))


def raw_info_bytes(data):
    """The exact byte span of the top-level 'info' value in a metafile."""
    pos = 0

    def skip():
        nonlocal pos
        c = data[pos:pos + 1]
        if c == b"i":
            pos = data.index(b"e", pos) + 1
        elif c.isdigit():
            colon = data.index(b":", pos)
            pos = colon + 1 + int(data[pos:colon])
        elif c in (b"l", b"d"):
            pos += 1
            while data[pos:pos + 1] != b"e":
                skip()
            pos += 1
        else:
            raise BencodeError("bad byte at %d" % pos)

    assert data[:1] == b"d"
    pos = 1
    while data[pos:pos + 1] != b"e":
        colon = data.index(b":", pos)
        n = int(data[pos:colon])
        key = data[colon + 1:colon + 1 + n]
        pos = colon + 1 + n
        start = pos
        skip()
        if key == b"info":
            return data[start:pos]
    return None


# ---- filesystem helpers -------------------------------------------------------

def snapshot(root):
    """path -> ('f', bytes) | ('d',) for everything under root."""
    out = {}
    for d, ds, fs in os.walk(root):
        out[os.path.relpath(d, root)] = ("d",)
        for f in fs:
            p = os.path.join(d, f)
            with open(p, "rb") as fd:
                out[os.path.relpath(p, root)] = ("f", fd.read())
    return out


def write_file(path, data):
    os.makedirs(os.path.dirname(path), exist_ok=True)
    with open(path, "wb") as f:
        f.write(data)


# ---- reference metafile builder ------------------------------------------------

def build_meta(files, plen, version, name="name", single=False, seed=0, trailing_pad=False, extra_info=None, aligned=False):
    """Metafile dict (bytes/ints/lists) for `files` = [(relpath_components, bytes)],
    written from the specs. version 1, 2 or 3 (hybrid)."""
    info = {"name": name, "piece length": plen}
    meta = {"info": info}
    if version in (1, 3):
        if single:
            info["length"] = len(files[0][1])
            info["pieces"] = v1_pieces(files[0][1], plen)
        else:
            lst = []
            stream = bytearray()
            for i, (comps, data) in enumerate(files):
                lst.append({"length": len(data), "path": list(comps)})
                stream += data
                if (version == 3 or aligned) and len(data) % plen and (i + 1 < len(files) or trailing_pad):
                    pad = plen - len(data) % plen
                    lst.append({"attr": "p", "length": pad, "path": [".pad", str(pad)]})
                    stream += bytes(pad)
            info["files"] = lst
            info["pieces"] = v1_pieces(bytes(stream), plen)
    if version in (2, 3):
        info["meta version"] = 2
        tree = {}
        layers = {}
        for comps, data in files:
            node = tree
            path = [name] if single else list(comps)
            for c in path[:-1]:
                node = node.setdefault(c, {})
            root, layer = v2_file(data, plen)
            leaf = {"length": len(data)}
            if root is not None:
                leaf["pieces root"] = root
            if layer is not None:
                layers[root] = layer
            node[path[-1]] = {"": leaf}
        info["file tree"] = tree
        meta["piece layers"] = layers
        if single and version == 2:
            pass
    if extra_info:
        info.update(extra_info)
    return meta
