#!/usr/bin/env python
"""run.py <PROPERTY> [--tier quick|thorough] [--only <job glob>] [--replay <file>]"""
import os
import sys

ROOT = os.path.dirname(os.path.abspath(__file__))
sys.path.insert(0, ROOT)

if __name__ == "__main__":
    if len(sys.argv) < 2:
        print(__doc__)
        raise SystemExit(2)
    prop = sys.argv[1].lower()
    from harness import common
    try:
        code = common.main("harness." + prop, sys.argv[2:])
    except SystemExit:
        raise
    except BaseException as ex:  # noqa: BLE001 - a crash of the machinery is never a verdict on the code under test
        import traceback
        traceback.print_exc()
        print("INCONCLUSIVE property=%s reason=harness error: %s: %s" % (prop.upper(), type(ex).__name__, ex))
        code = 2
    raise SystemExit(code)
