#!/usr/bin/env python
"""run.py <PROPERTY> [--tier quick|thorough] [--only <job glob>] [--replay <file>]"""
import os
import sys

ROOT = os.path.dirname(os.path.abspath(__file__))
sys.path.insert(0, ROOT)

if __name__ == "__main__":
    if len(sys.argv) < 2:
        print(__doc__)
        raise SystemExit(2)
    prop = sys.argv[1].lower()
    from harness import common
    raise SystemExit(common.main("harness." + prop, sys.argv[2:]))
