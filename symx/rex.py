"""A small regular-expression engine over symbolic class-strings (symx.strs.SymStr).

`re` stays the interpreter's own module for ordinary strings; when a pattern is applied to a SymStr the parsed
pattern (the interpreter's own parser, re._parser) is matched by backtracking, every character test being a condition
on the character's class / digit value that forks through the solver.  Constructs whose outcome the nine character
classes cannot decide (a literal letter, '.', \\w, case folding, look-around, back-references) raise Unsupported."""
import re as _re

try:
    from re import _parser as _sp
    from re import _constants as _sc
except ImportError:  # pragma: no cover - older interpreters
    import sre_parse as _sp
    import sre_constants as _sc

from .core import Unsupported, tb, conj, disj, neg
from .strs import SymStr, classify, A, B, C1, C2, W, PLUS, MINUS, US, O, DOT


def _lit(c, code):
    ch = chr(code)
    k = classify(ch)
    if k == A:
        return conj(c.grp == A, c.dig == int(ch))
    if k in (PLUS, MINUS, US, DOT):
        return c.grp == k
    raise Unsupported("regex literal %r on a symbolic character" % ch)


def _cat(c, cat):
    if cat == _sc.CATEGORY_DIGIT:
        return disj(c.grp == A, c.grp == B)
    if cat == _sc.CATEGORY_NOT_DIGIT:
        return neg(disj(c.grp == A, c.grp == B))
    if cat == _sc.CATEGORY_SPACE:
        return c.grp == W
    if cat == _sc.CATEGORY_NOT_SPACE:
        return neg(c.grp == W)
    raise Unsupported("regex category %s on a symbolic character" % cat)


def _in(c, items):
    negate = False
    conds = []
    for op, av in items:
        if op == _sc.NEGATE:
            negate = True
        elif op == _sc.LITERAL:
            conds.append(_lit(c, av))
        elif op == _sc.RANGE:
            lo, hi = chr(av[0]), chr(av[1])
            if "0" <= lo <= "9" and "0" <= hi <= "9":
                conds.append(conj(c.grp == A, c.dig >= int(lo), c.dig <= int(hi)))
            else:
                raise Unsupported("regex range %s-%s on a symbolic character" % (lo, hi))
        elif op == _sc.CATEGORY:
            conds.append(_cat(c, av))
        else:
            raise Unsupported("regex set item %s" % op)
    r = disj(*conds) if conds else False
    return neg(r) if negate else r


def _match_seq(seq, i, s, pos, groups):
    """Yield (end position, groups) for every way seq[i:] matches s.chars from pos (greedy order)."""
    if i == len(seq):
        yield pos, groups
        return
    op, av = seq[i]
    cs = s.chars
    if op in (_sc.LITERAL, _sc.NOT_LITERAL, _sc.IN, _sc.CATEGORY):
        if pos >= len(cs):
            return
        c = cs[pos]
        cond = (_lit(c, av) if op == _sc.LITERAL else neg(_lit(c, av)) if op == _sc.NOT_LITERAL
                else _in(c, av) if op == _sc.IN else _cat(c, av))
        if tb(cond):
            yield from _match_seq(seq, i + 1, s, pos + 1, groups)
        return
    if op == _sc.AT:
        if av in (_sc.AT_BEGINNING, _sc.AT_BEGINNING_STRING):
            ok = pos == 0
        elif av == _sc.AT_END_STRING:
            ok = pos == len(cs)
        elif av == _sc.AT_END:
            if pos == len(cs):
                ok = True
            elif pos == len(cs) - 1 and tb(cs[pos].grp == W):
                raise Unsupported("regex '$' before a trailing whitespace character (newline or not is not modelled)")
            else:
                ok = False
        else:
            raise Unsupported("regex anchor %s" % av)
        if ok:
            yield from _match_seq(seq, i + 1, s, pos, groups)
        return
    if op == _sc.SUBPATTERN:
        gid, add, dele, sub = av
        if add or dele:
            raise Unsupported("regex inline flags")
        for end, g2 in _match_seq(list(sub), 0, s, pos, groups):
            g3 = dict(g2)
            if gid is not None:
                g3[gid] = (pos, end)
            yield from _match_seq(seq, i + 1, s, end, g3)
        return
    if op == _sc.BRANCH:
        for alt in av[1]:
            for end, g2 in _match_seq(list(alt), 0, s, pos, groups):
                yield from _match_seq(seq, i + 1, s, end, g2)
        return
    if op in (_sc.MAX_REPEAT, _sc.MIN_REPEAT):
        lo, hi, sub = av
        sub = list(sub)
        hi = len(cs) - pos + 1 if hi == _sc.MAXREPEAT else hi

        def rep(n, p, g):
            """matches of sub{n more allowed}: greedy tries one more first, lazy tries stopping first."""
            stop_ok = n_done[0] >= lo
            if op == _sc.MIN_REPEAT and stop_ok:
                yield from _match_seq(seq, i + 1, s, p, g)
            if n_done[0] < hi:
                for end, g2 in _match_seq(sub, 0, s, p, g):
                    if end == p:
                        continue        # empty iteration: no progress
                    n_done[0] += 1
                    yield from rep(n, end, g2)
                    n_done[0] -= 1
            if op == _sc.MAX_REPEAT and stop_ok:
                yield from _match_seq(seq, i + 1, s, p, g)
        n_done = [0]
        yield from rep(0, pos, groups)
        return
    raise Unsupported("regex construct %s on a symbolic string" % op)


class SymMatch:
    def __init__(self, s, start, end, groups, ngroups):
        self._s, self._span, self._g, self._n = s, (start, end), groups, ngroups

    def _sl(self, span):
        return None if span is None else SymStr(self._s.chars[span[0]:span[1]], self._s.name)

    def group(self, *idx):
        idx = idx or (0,)
        out = [self._sl(self._span if i == 0 else self._g.get(i)) for i in idx]
        return out[0] if len(out) == 1 else tuple(out)

    __getitem__ = group

    def groups(self, default=None):
        return tuple(self._sl(self._g.get(i)) if self._g.get(i) is not None else default for i in range(1, self._n + 1))

    def start(self, i=0):
        return (self._span if i == 0 else self._g.get(i, (-1, -1)))[0]

    def end(self, i=0):
        return (self._span if i == 0 else self._g.get(i, (-1, -1)))[1]

    def span(self, i=0):
        return self._span if i == 0 else self._g.get(i, (-1, -1))

    def __bool__(self):
        return True


class Pattern:
    def __init__(self, pattern, flags=0):
        self._real = _re.compile(pattern, flags)
        self.pattern, self.flags, self.groups = self._real.pattern, self._real.flags, self._real.groups

    def _tree(self):
        if self._real.flags & (_re.IGNORECASE | _re.MULTILINE | _re.DOTALL | _re.VERBOSE | _re.ASCII):
            raise Unsupported("regex flags on a symbolic string")
        return list(_sp.parse(self._real.pattern, self._real.flags & ~_re.UNICODE))

    def _at(self, s, pos, full=False):
        for end, g in _match_seq(self._tree(), 0, s, pos, {}):
            if full and end != len(s.chars):
                continue
            return SymMatch(s, pos, end, g, self.groups)
        return None

    def match(self, s, *a):
        if isinstance(s, SymStr):
            return self._at(s, 0)
        return self._real.match(s, *a)

    def fullmatch(self, s, *a):
        if isinstance(s, SymStr):
            return self._at(s, 0, full=True)
        return self._real.fullmatch(s, *a)

    def search(self, s, *a):
        if isinstance(s, SymStr):
            for p in range(len(s.chars) + 1):
                m = self._at(s, p)
                if m is not None:
                    return m
            return None
        return self._real.search(s, *a)

    def __getattr__(self, name):
        if name.startswith("__"):
            raise AttributeError(name)
        real = getattr(self._real, name)

        def call(s, *a, **k):
            if isinstance(s, SymStr):
                raise Unsupported("re.Pattern.%s on a symbolic string" % name)
            return real(s, *a, **k)
        return call if callable(real) else real


def facade():
    import types
    m = types.ModuleType("re")
    m.__dict__.update({k: v for k, v in vars(_re).items() if not k.startswith("__")})
    m.compile = lambda p, flags=0: p if isinstance(p, Pattern) else Pattern(p, flags)
    m.match = lambda p, s, flags=0: m.compile(p, flags).match(s)
    m.fullmatch = lambda p, s, flags=0: m.compile(p, flags).fullmatch(s)
    m.search = lambda p, s, flags=0: m.compile(p, flags).search(s)
    for name in ("sub", "subn", "split", "findall", "finditer"):
        def f(p, *a, _n=name, **k):
            if any(isinstance(x, SymStr) for x in a):
                raise Unsupported("re.%s on a symbolic string" % _n)
            return getattr(_re, _n)(p._real if isinstance(p, Pattern) else p, *a, **k)
        setattr(m, name, f)
    m.Pattern = Pattern
    return m
