"""Observational string abstraction: an opaque string whose only observable
operations are the ones routing kernels use (`== ""`, truthiness, `.split()`,
`.split("\\n")`, `.lower() == <constant>`, `== <constant>`, isinstance(_, str)).
Each observation is a forked choice constrained to be self-consistent; any other
method raises Unsupported.  A verdict obtained this way holds for strings of any
length and alphabet, because the code cannot distinguish them further.
Distinct opaque strings are taken to be different strings (configuration).
"""
from .core import Unsupported, eng, tb


class OStr:
    _ostr = True

    def __init__(self, name, nonempty=None, parent=None):
        self.name = name
        self._nonempty = nonempty      # None = not yet observed
        self._ws = None                # whitespace-only (meaningful when nonempty)
        self._split = {}
        self._consts = {}              # lowered/plain constant -> bool
        self._lower = None
        self.parent = parent

    # --- observations
    def _obs_nonempty(self):
        if self._nonempty is None:
            self._nonempty = eng().choice("%s.nonempty" % self.name, 2) == 1
        return self._nonempty

    def __bool__(self):
        return self._obs_nonempty()

    def _is_const(self, c, lowered):
        """Is this string (lower-cased if `lowered`) equal to constant c?"""
        if c == "":
            return not self._obs_nonempty()
        if not self._obs_nonempty():
            return False
        key = (c, lowered)
        if key not in self._consts:
            if any(v for k, v in self._consts.items() if k[1] == lowered):
                self._consts[key] = False      # already equal to another constant
            elif (not lowered) and any(v for k, v in self._consts.items() if k[1] and k[0] != c.lower()):
                self._consts[key] = False
            else:
                self._consts[key] = eng().choice("%s.is[%s%s]" % (self.name, "lower:" if lowered else "", c), 2) == 1
                if self._consts[key] and not lowered:
                    self._consts[(c.lower(), True)] = True
        return self._consts[key]

    def __eq__(self, o):
        if o is self:
            return True
        if isinstance(o, OStr):
            return False
        if isinstance(o, str):
            return self._is_const(o, False)
        return False

    def __ne__(self, o):
        return not self.__eq__(o)

    def __hash__(self):
        return id(self) >> 4

    def lower(self):
        if self._lower is None:
            self._lower = OLower(self)
        return self._lower

    def split(self, sep=None, maxsplit=-1):
        if maxsplit != -1:
            raise Unsupported("OStr.split(maxsplit)")
        rep = getattr(self, "_replaced", None)
        if sep not in self._split and rep is not None and rep[2] == sep and isinstance(sep, str) and sep:
            # the separator was put in by replace(old, sep): the fields of the original, one of them cut in two at `old`
            parts = list(rep[0].split(sep))
            victim = parts[-1]
            parts[-1:] = [OStr(victim.name + ".before", parent=self), OStr(victim.name + ".after", parent=self)]
            self._split[sep] = parts
        if sep not in self._split:
            E = eng()
            if sep is None:
                if not self._obs_nonempty():
                    parts = []
                else:
                    k = E.choice("%s.words" % self.name, 3)      # 0 (whitespace only), 1 or 2 words
                    parts = [OStr("%s.w%d" % (self.name, i), nonempty=True, parent=self) for i in range(k)]
            elif isinstance(sep, str) and sep:
                if not self._obs_nonempty():
                    parts = [OStr(self.name + ".p0", nonempty=False, parent=self)]
                else:
                    k = 1 + E.choice("%s.fields[%r]" % (self.name, sep), 3)     # 1..3 fields
                    parts = [OStr("%s.p%d" % (self.name, i), parent=self) for i in range(k)]
                    if k == 1:
                        parts[0]._nonempty = True
            else:
                raise Unsupported("OStr.split(%r)" % (sep,))
            self._split[sep] = parts
        return list(self._split[sep])

    def _obs_digits(self):
        """All characters decimal digits? (a forked observation; implies non-empty)"""
        if not self._obs_nonempty():
            return False
        if getattr(self, "_digits", None) is None:
            if any(v for v in self._consts.values()):
                self._digits = False
            else:
                self._digits = eng().choice("%s.isdigit" % self.name, 2) == 1
        return self._digits

    def isdigit(self):
        return self._obs_digits()

    isdecimal = isnumeric = isdigit

    def __symint__(self):
        if not self._obs_digits():
            raise ValueError("invalid literal for int() with base 10")
        if getattr(self, "_intval", None) is None:
            self._intval = eng().int("%s.intvalue" % self.name, 0, None)
        return self._intval

    def _obs_contains(self, lit):
        """Does the string contain the literal `lit`? (a forked observation, remembered)"""
        if not self._obs_nonempty():
            return False
        seen = self.__dict__.setdefault("_has", {})
        if lit not in seen:
            seen[lit] = eng().choice("%s.has[%s]" % (self.name, lit if lit.isprintable() else repr(lit)), 2) == 1
        return seen[lit]

    def __contains__(self, lit):
        if not isinstance(lit, str):
            raise Unsupported("%r in OStr" % (lit,))
        return lit == "" or self._obs_contains(lit)

    def replace(self, old, new, count=-1):
        if not isinstance(old, str) or not isinstance(new, str) or old == "" or count != -1:
            raise Unsupported("OStr.replace(%r, %r)" % (old, new))
        if old == new or not self._obs_contains(old):
            return self
        r = OStr("%s.replace(%s)" % (self.name, old if old.isprintable() else repr(old)), nonempty=None if new == "" else True, parent=self)
        r._replaced = (self, old, new)
        return r

    def strip(self, *a):
        if a and a[0] is not None:
            raise Unsupported("OStr.strip(chars)")
        if not self._obs_nonempty():
            return self
        if getattr(self, "_outer_ws", None) is None:
            self._outer_ws = eng().choice("%s.outer-whitespace" % self.name, 2) == 1
        if not self._outer_ws:
            return self
        if getattr(self, "_stripped", None) is None:
            self._stripped = OStr(self.name + ".stripped", parent=self)
        return self._stripped

    def __len__(self):
        raise Unsupported("len(OStr)")

    def __iter__(self):
        raise Unsupported("iteration over OStr")

    def __getitem__(self, i):
        raise Unsupported("OStr[%r]" % (i,))

    def __add__(self, o):
        return OStr("(%s+...)" % self.name, nonempty=True if self._nonempty else None)

    def __radd__(self, o):
        return OStr("(...+%s)" % self.name, nonempty=True if self._nonempty else None)

    def __mod__(self, o):
        raise Unsupported("OStr % args")

    def __str__(self):
        return "<ostr %s>" % self.name

    __repr__ = __str__

    def __format__(self, spec):
        return str(self)

    def __getattr__(self, name):
        if name.startswith("_"):
            raise AttributeError(name)
        raise Unsupported("str.%s on opaque string" % name)


class OLower:
    def __init__(self, base):
        self.base = base

    def __eq__(self, o):
        if isinstance(o, str):
            if o != o.lower():
                return False
            return self.base._is_const(o, True)
        if isinstance(o, OLower):
            return o.base is self.base
        return False

    def __ne__(self, o):
        return not self.__eq__(o)

    def __hash__(self):
        return id(self.base) >> 4

    def __contains__(self, x):
        raise Unsupported("in OStr.lower()")

    def __getattr__(self, name):
        if name.startswith("_"):
            raise AttributeError(name)
        raise Unsupported("str.%s on lower-cased opaque string" % name)
