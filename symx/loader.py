"""Loader: execute the repository's real source with a symbolic environment.

`World(fs)` is one simulated process: every torrentfile module it hands out is
read from /repo/torrentfile/<m>.py (working tree), parsed, passed through one
mechanical AST rewrite (bytes literals -> __abuf__(...)), compiled and executed
in a fresh namespace whose builtins and imports are the models in this package.
A closed-world guard turns every import that is neither modelled nor inert
into a proxy that raises `Unsupported` when touched.
"""
import ast
import builtins as _bi
import hashlib
import os as _os
import types

from . import core
from .core import (Unsupported, SymInt, SymIntStr, Rat, sym_int, sym_str, sym_float, sym_range, sym_len,
                   shim, tb, eng)
from .abuf import ABuf, sha1, sha256, HEX
from . import abuf as _abuf
from .strs import SymStr
from .ostr import OStr

REPO = _os.environ.get("VERIF_REPO", "/repo")
PKG = _os.path.join(REPO, "torrentfile")

INERT = {"logging", "typing", "collections", "collections.abc", "argparse", "re", "itertools",
         "abc", "enum", "string", "textwrap", "copy", "operator", "dataclasses", "warnings", "gettext",
         "contextlib", "errno", "stat", "types", "json", "binascii", "base64", "struct", "unicodedata"}


class _BytesLit(ast.NodeTransformer):
    def visit_Constant(self, node):
        if isinstance(node.value, bytes):
            return ast.copy_location(ast.Call(ast.Name("__abuf__", ast.Load()), [node], []), node)
        return node

    def visit_JoinedStr(self, node):
        return self.generic_visit(node)

    def visit_Dict(self, node):
        node = self.generic_visit(node)
        return ast.copy_location(ast.Call(ast.Name("__symdict__", ast.Load()), [node], []), node)

    def visit_DictComp(self, node):
        node = self.generic_visit(node)
        return ast.copy_location(ast.Call(ast.Name("__symdict__", ast.Load()), [node], []), node)

    def visit_Call(self, node):
        node = self.generic_visit(node)
        # <sep>.join(<items>) -> __join__(<sep>, <items>): a real str separator cannot join opaque strings
        if isinstance(node.func, ast.Attribute) and node.func.attr == "join" and len(node.args) == 1 and not node.keywords:
            return ast.copy_location(ast.Call(ast.Name("__join__", ast.Load()), [node.func.value, node.args[0]], []), node)
        return node


_CODE = {}


_JOINS = [0]


def _sym_join(sep, *args):
    """<sep>.join(...) as rewritten by the loader.  For a text separator and one iterable: str.join that accepts
    opaque strings (the items are consumed - an iterator is exhausted - and the result is another opaque string).
    Anything else (os.path.join, bytes-like separators, several arguments) is the receiver's own join."""
    if isinstance(sep, str) and len(args) == 1:
        items = list(args[0])
        if any(getattr(i, "_ostr", False) or isinstance(i, SymStr) for i in items):
            _JOINS[0] += 1
            return OStr("join#%d(%s)" % (_JOINS[0], ",".join(getattr(i, "name", "s") if not isinstance(i, str) else repr(i) for i in items)))
        return sep.join(items)
    return sep.join(*args)


_LOGGING = []


def _logging_facade():
    """The real logging module, except that basicConfig only sets the level (no handler on the harness's stderr)."""
    if not _LOGGING:
        import logging
        ns = types.ModuleType("logging")
        ns.__dict__.update({k: v for k, v in vars(logging).items() if not k.startswith("__")})

        def basicConfig(**kw):
            if "level" in kw and kw["level"] is not None:
                logging.getLogger().setLevel(kw["level"])
        ns.basicConfig = basicConfig
        logging.lastResort = None
        _LOGGING.append(ns)
    return _LOGGING[0]


def _reset_logging():
    """`logging` is the real module (its records go nowhere that matters), but its configuration is process state:
    a new World is a new process, so the root logger goes back to its defaults and every torrentfile logger to NOTSET."""
    import logging
    root = logging.getLogger()
    for h in list(root.handlers):
        root.removeHandler(h)
    root.setLevel(logging.WARNING)
    logging.disable(logging.NOTSET)
    for name, lg in list(logging.Logger.manager.loggerDict.items()):
        if name.startswith("torrentfile") and isinstance(lg, logging.Logger):
            lg.setLevel(logging.NOTSET)
            for h in list(lg.handlers):
                lg.removeHandler(h)
            lg.disabled = False
            lg.propagate = True


def source_of(mod):
    with open(_os.path.join(PKG, mod + ".py"), encoding="utf-8") as f:
        return f.read()


def source_hash(mod):
    return hashlib.sha256(source_of(mod).encode()).hexdigest()[:16]


class MutantNotApplicable(Exception):
    pass


def _compile(mod, mutant):
    path = _os.path.join(PKG, mod + ".py")
    st = _os.stat(path)
    key = (path, st.st_mtime_ns, st.st_size, mutant)
    c = _CODE.get(key)
    if c is None:
        src = source_of(mod)
        if mutant:
            for old, new in mutant:
                if src.count(old) < 1:
                    raise MutantNotApplicable("%s: pattern not found: %r" % (mod, old[:60]))
                src = src.replace(old, new)
        tree = ast.fix_missing_locations(_BytesLit().visit(ast.parse(src, path)))
        c = compile(tree, path, "exec")
        _CODE[key] = c
    return c


class _Proxy(types.ModuleType):
    """Module outside the modelled world."""

    def __getattr__(self, name):
        if name.startswith("__") and name.endswith("__"):
            raise AttributeError(name)
        raise Unsupported("use of unmodelled module %s.%s" % (self.__name__, name))


class NullBar:
    """Stand-in for mixins.ProgressBar: formatting is not the subject."""

    def __init__(self, *a, **k):
        self.state = 0

    @classmethod
    def new(cls, total, path, length=50, unit="bytes"):
        return cls()

    def update(self, val):
        return None

    @staticmethod
    def close_out():
        return None

    def get_progress(self):
        return ""


class _Out:
    def write(self, s):
        return 0

    def flush(self):
        pass

    def isatty(self):
        return False


class EncodeError(Exception):
    pass


class DecodeError(Exception):
    pass


class FilePathError(Exception):
    pass


class BenTok:
    """Bencoding of an object, as an opaque token: equal iff the objects are
    deep- and order-equal (A-pyben: the encoder is injective on the decoded
    typing and emits keys in insertion order)."""

    def __init__(self, obj):
        self.obj = obj

    def __eq__(self, o):
        return isinstance(o, BenTok) and ben_equal(self.obj, o.obj)

    def __hash__(self):
        return 3

    def __repr__(self):
        return "BenTok(%r)" % (self.obj,)


def ben_equal(a, b, ordered=True):
    """Deep equality of decoded metafile objects; dicts compare key order too."""
    if isinstance(a, dict) and isinstance(b, dict):
        if len(a) != len(b):
            return False
        if ordered:
            for (k1, v1), (k2, v2) in zip(a.items(), b.items()):
                if not _key_eq(k1, k2) or not ben_equal(v1, v2, ordered):
                    return False
            return True
        used = set()
        for k1, v1 in a.items():
            hit = None
            for i, (k2, v2) in enumerate(b.items()):
                if i not in used and _key_eq(k1, k2):
                    hit = i
                    if not ben_equal(v1, v2, ordered):
                        return False
                    break
            if hit is None:
                return False
            used.add(hit)
        return True
    if isinstance(a, (list, tuple)) and isinstance(b, (list, tuple)):
        if len(a) != len(b):
            return False
        return all(ben_equal(x, y, ordered) for x, y in zip(a, b))
    if isinstance(a, bool) != isinstance(b, bool):
        return False
    if isinstance(a, (dict, list, tuple)) or isinstance(b, (dict, list, tuple)):
        return False
    if isinstance(a, ABuf) or isinstance(b, ABuf):
        if isinstance(a, (str, OStr)) or isinstance(b, (str, OStr)):
            return False
        return a == b
    if isinstance(a, (str, OStr)) != isinstance(b, (str, OStr)):
        return False
    r = a == b
    return tb(r) if isinstance(r, core.SymBool) else bool(r)


def _key_eq(a, b):
    sa, sb = isinstance(a, (str, OStr)), isinstance(b, (str, OStr))
    if sa and sb:
        return bool(a == b)
    if sa or sb:
        return False
    return a == b


def ben_copy(x):
    """What a decode of the encoding of x yields (fresh objects)."""
    if isinstance(x, dict):
        return {ben_copy(k): ben_copy(v) for k, v in x.items()}
    if isinstance(x, (list, tuple)):
        return [ben_copy(v) for v in x]
    if isinstance(x, ABuf):
        return ABuf(x)
    if isinstance(x, (bytes, bytearray)):
        return ABuf(x)
    return x


def ben_len(x, w):
    """Length of the bencoding of x as a linear term: opaque strings contribute a
    symbolic length (2 + n for 1 <= n <= 9 characters, a stated bound of the
    length-sensitive obligations), everything else its concrete length."""
    E = eng()
    if isinstance(x, bool):
        return 6
    if isinstance(x, int):
        return len("i%de" % x)
    if isinstance(x, SymInt):
        key = "benlen.int.%s" % x.e.sexpr()
        if key not in w.benlens:
            w.benlens[key] = E.int("benlen.int.%d" % len(w.benlens), 3, 25)
        return w.benlens[key]
    if isinstance(x, OStr):
        if x._nonempty is False:
            return 2
        key = "benlen.%s" % x.name
        if key not in w.benlens:
            w.benlens[key] = E.int(key, 3 if x._nonempty else 2, 11)
        return w.benlens[key]
    if isinstance(x, str):
        b = x.encode("utf-8") if not isinstance(x, SymIntStr) else b"12345"
        return len(str(len(b))) + 1 + len(b)
    if isinstance(x, ABuf):
        n = x.size()
        if isinstance(n, int):
            return len(str(n)) + 1 + n
        return n + 6
    if isinstance(x, (bytes, bytearray)):
        return len(str(len(x))) + 1 + len(x)
    if isinstance(x, (list, tuple)):
        t = 2
        for v in x:
            t = t + ben_len(v, w)
        return t
    if isinstance(x, dict):
        t = 2
        for k, v in x.items():
            t = t + ben_len(k, w) + ben_len(v, w)
        return t
    raise Unsupported("ben_len(%s)" % type(x).__name__)


def ben_check(x, path="$"):
    """Encoder's type dispatch: what pyben.dump accepts."""
    if isinstance(x, (str, OStr, SymStr)):
        return
    if isinstance(x, bool):
        return      # pyben encodes bools through the int branch ("iTruee"); judged by C06
    if isinstance(x, (int, SymInt)):
        return
    if isinstance(x, ABuf) or hasattr(x, "hex") and not isinstance(x, float):
        return
    if isinstance(x, (list, tuple)):
        for i, v in enumerate(x):
            ben_check(v, "%s[%d]" % (path, i))
        return
    if isinstance(x, dict):
        for k, v in x.items():
            ben_check(k, path + ".<key>")
            ben_check(v, "%s.%s" % (path, k if isinstance(k, str) else "<bytes>"))
        return
    raise EncodeError("%s: %r" % (path, x))


def _is_pow2(x, hi=1100):
    import z3
    return core.SymBool(z3.Or([x.e == 2 ** k for k in range(hi)]))


class HLog:
    """libm stub: math.log2 of a symbolic positive int. The real result is some
    float within the monotone bracket floor(log2 x) <= . <= ceil(log2 x), exact
    for powers of two; anything decided from it on a non-power of two is
    havoc'd and must be confirmed by replay on the real libm."""

    def __init__(self, x, world):
        self.x, self.w = x, world

    def __rpow__(self, base):
        if base != 2:
            raise Unsupported("pow(%r, log2(sym))" % (base,))
        if tb(self.x >= 2 ** 1024):
            raise OverflowError(34, "Numerical result out of range")
        return HPow(self.x, self.w)

    def __symint__(self):
        import z3
        x = self.x
        if tb(x >= 2 ** 64):
            raise Unsupported("int(log2(x)) beyond 2**64")
        k = core.SymInt(z3.Sum([z3.If(x.e >= 2 ** j, 1, 0) for j in range(1, 65)]))
        k = core.concretize(k, "int(log2)")
        if k >= 47 and not tb(_is_pow2(x)):
            self.w.havoc_used = True
            if tb(core.SymBool(z3.Bool("havoc_log_round_%d" % self.w.fresh()))):
                return k + 1
        return k

    def is_integer(self):
        if tb(_is_pow2(self.x)):
            return True
        self.w.havoc_used = True
        import z3
        return core.SymBool(z3.Bool("havoc_log_isint_%d" % self.w.fresh()))

    def __getattr__(self, n):
        raise Unsupported("float op %s on log2(sym)" % n)


class HPow:
    def __init__(self, x, world):
        self.x, self.w = x, world

    def __eq__(self, o):
        import z3
        if isinstance(o, SymInt) and z3.eq(z3.simplify(o.e), z3.simplify(self.x.e)):
            if tb(_is_pow2(self.x)):
                return True
            self.w.havoc_used = True
            return core.SymBool(z3.Bool("havoc_pow_eq_%d" % self.w.fresh()))
        raise Unsupported("2**log2(x) compared with something else")

    def __ne__(self, o):
        return core.neg(self.__eq__(o))

    def __hash__(self):
        return 19

    def __getattr__(self, n):
        raise Unsupported("float op %s on 2**log2(sym)" % n)


class World:
    def __init__(self, fs, clock=1_700_000_000, mutants=None, argv=None, quote_model=True):
        self.havoc_used = False
        self._fresh = 0
        self.track_lengths = False
        self.benlens = {}
        self.fs = fs
        self.clock = clock
        self.mutants = mutants or {}
        self.mods = {}
        self.dumps_log = []     # every object handed to pyben.dump / dumps (capture point for C06)
        self.quoted = {}
        self.quote_model = quote_model
        self.argv = argv or ["torrentfile"]
        self.stdout = _Out()
        HEX.clear()
        _reset_logging()
        self._models = self._build_models()
        self._bi = self._builtins()

    def fresh(self):
        self._fresh += 1
        return self._fresh

    # ------------------------------------------------------------------ models
    def _build_models(self):
        w, fs = self, self.fs
        m = {}
        m["os"] = fs.os()
        m["os.path"] = m["os"].path
        m["posixpath"] = m["os"].path
        m["shutil"] = fs.shutil()
        m["pathlib"] = types.SimpleNamespace(Path=fs.Path(), PurePath=fs.Path(), PurePosixPath=fs.Path())
        m["hashlib"] = types.SimpleNamespace(sha1=sha1, sha256=sha256)

        # --- pyben
        def load(buffer, to_json=False):
            if buffer in [None, ""]:
                raise FilePathError(buffer)
            if hasattr(buffer, "read"):
                data = buffer.read()
            else:
                try:
                    with fs.open(buffer, "rb") as fd:
                        data = fd.read()
                except (FileNotFoundError, IsADirectoryError, PermissionError) as err:
                    raise FilePathError(buffer) from err
            return loads(data)

        def loads(data, to_json=False):
            segs = [s for s in data.segs] if isinstance(data, ABuf) else None
            if segs and segs[0][0] == "T" and isinstance(segs[0][1], BenTok) and (len(segs) == 1 or w.track_lengths):
                # pyben's decoder stops after the first complete value and ignores whatever follows
                return ben_copy(segs[0][1].obj)
            raise DecodeError("not a complete bencoded value: %r" % (data,))

        def dumps(obj):
            ben_check(obj)
            snap = ben_copy(obj)
            w.dumps_log.append(("dumps", snap))
            return ABuf.of([("T", BenTok(snap), 0, ben_len(snap, w) if w.track_lengths else None)])

        def dump(obj, buffer):
            ben_check(obj)
            snap = ben_copy(obj)
            enc = ABuf.of([("T", BenTok(snap), 0, ben_len(snap, w) if w.track_lengths else None)])
            w.dumps_log.append(("dump", snap, buffer if isinstance(buffer, str) else str(buffer)))
            if hasattr(buffer, "write"):
                buffer.write(enc)
            else:
                with fs.open(buffer, "wb") as fd:
                    fd.write(enc)

        m["pyben"] = types.SimpleNamespace(load=load, loads=loads, dump=dump, dumps=dumps,
                                           EncodeError=EncodeError, DecodeError=DecodeError,
                                           FilePathError=FilePathError)

        # --- datetime
        class _Stamp:
            def __init__(self, v):
                self.v = v

            def timestamp(self):
                return self.v

        class datetime:
            @classmethod
            def now(cls, tz=None):
                return _Stamp(w.clock)

            utcnow = now
            today = now

            @staticmethod
            def timestamp(x):
                return x.v

        m["datetime"] = types.SimpleNamespace(datetime=datetime)
        m["time"] = types.SimpleNamespace(time=lambda: w.clock, sleep=lambda s: None,
                                          monotonic=lambda: w.clock, perf_counter=lambda: w.clock)

        # --- math
        import math as _math

        def ceil(x):
            if isinstance(x, Rat):
                return -((-x.n) // x.d)
            if isinstance(x, SymInt):
                return x
            return _math.ceil(x)

        def floor(x):
            if isinstance(x, Rat):
                return x.n // x.d
            if isinstance(x, SymInt):
                return x
            return _math.floor(x)

        def log2(x):
            if isinstance(x, SymInt):
                if tb(x <= 0):
                    raise ValueError("math domain error")
                return HLog(x, w)
            if isinstance(x, Rat):
                raise Unsupported("math.log2 of symbolic rational")
            return _math.log2(x)

        def log(x, *a):
            if isinstance(x, (SymInt, Rat)):
                raise Unsupported("math.log of symbolic value")
            return _math.log(x, *a)

        m["math"] = types.SimpleNamespace(ceil=ceil, floor=floor, log2=log2, log=log, inf=_math.inf,
                                          pow=_math.pow, sqrt=_math.sqrt)

        # --- sys / platform / misc
        m["sys"] = types.SimpleNamespace(stdout=w.stdout, stderr=w.stdout, argv=w.argv, platform="linux",
                                         version_info=__import__("sys").version_info, exit=_sys_exit,
                                         stdin=None, maxsize=__import__("sys").maxsize)
        m["platform"] = types.SimpleNamespace(system=lambda: "Linux")
        import io as _io
        m["io"] = types.SimpleNamespace(StringIO=_io.StringIO, BytesIO=_io.BytesIO)

        # --- tempfile: unique names in a directory of the AFS (mkstemp returns an open descriptor, unbuffered)
        from .afs import AWFile as _AWFile, _Fd as _FdT, Node as _Node

        def mkstemp(suffix=None, prefix=None, dir=None, text=False):
            d = fs.abs(dir if dir is not None else "/tmp")
            if d not in fs.dirs:
                raise FileNotFoundError(2, "No such file or directory", d)
            w._tmpn = getattr(w, "_tmpn", 0) + 1
            path = "%s/%stmp%04d%s" % (d.rstrip("/"), prefix or "", w._tmpn, suffix or "")
            fs._op("open-x", path)
            fs.files[path] = _Node(ABuf.of([]))
            return _FdT(_AWFile(fs, path, "w", unbuffered=True)), path
        m["tempfile"] = types.SimpleNamespace(mkstemp=mkstemp, gettempdir=lambda: "/tmp", gettempprefix=lambda: "tmp",
                                              NamedTemporaryFile=_Proxy("tempfile").__getattr__, TemporaryDirectory=_Proxy("tempfile").__getattr__,
                                              mkdtemp=_Proxy("tempfile").__getattr__)
        m["ctypes"] = _Proxy("ctypes")

        # --- urllib.parse
        import urllib.parse as _up

        def quote_plus(s, *a, **k):
            if not w.quote_model:
                return _up.quote_plus(s, *a, **k)
            for key, v in w.quoted.items():
                if v is s or (type(v) is type(s) and isinstance(s, str) and not hasattr(s, "_ostr") and v == s):
                    return key
            key = "⟦q:%d⟧" % len(w.quoted)
            w.quoted[key] = s
            return key

        def _concrete_only(fn_name):
            real = getattr(_up, fn_name)

            def call(*a, **k):
                if any(getattr(x, "_ostr", False) or isinstance(x, SymStr) for x in a):
                    raise Unsupported("urllib.parse.%s on an opaque string" % fn_name)
                return real(*a, **k)
            return call
        up = types.SimpleNamespace(quote_plus=quote_plus, quote=quote_plus, unquote_plus=_up.unquote_plus,
                                   urlencode=_Proxy("urllib.parse").__getattr__)
        for fn_name in ("urlsplit", "urlunsplit", "urlparse", "urlunparse", "unquote", "urljoin", "urldefrag", "parse_qs", "parse_qsl"):
            setattr(up, fn_name, _concrete_only(fn_name))
        up.SplitResult, up.ParseResult = _up.SplitResult, _up.ParseResult
        m["urllib.parse"] = up
        m["urllib"] = types.SimpleNamespace(parse=up)

        # --- functools: caches compare their arguments symbolically (a key may be a symbolic size)
        import functools as _ft

        def _args_equal(a, b):
            if len(a) != len(b):
                return False
            for x, y in zip(a, b):
                if isinstance(x, (SymInt,)) or isinstance(y, (SymInt,)):
                    if not tb(x == y):
                        return False
                elif isinstance(x, (tuple, list)) and isinstance(y, (tuple, list)):
                    if not _args_equal(tuple(x), tuple(y)):
                        return False
                elif not (x == y):
                    return False
            return True

        def _lru_cache(maxsize=128, typed=False):
            def deco(fn):
                entries = []

                @_ft.wraps(fn)
                def wrapper(*a, **k):
                    key = tuple(a) + tuple(sorted(k.items()))
                    for kk, v in entries:
                        if _args_equal(kk, key):
                            return v
                    v = fn(*a, **k)
                    entries.append((key, v))
                    return v
                wrapper.cache_clear = lambda: entries.clear()
                wrapper.cache_info = lambda: (0, 0, maxsize, len(entries))
                wrapper.__wrapped__ = fn
                return wrapper
            if callable(maxsize):
                fn, maxsize = maxsize, 128
                return deco(fn)
            return deco

        fm = types.ModuleType("functools")
        fm.__dict__.update({k: getattr(_ft, k) for k in dir(_ft) if not k.startswith("__")})
        fm.lru_cache = _lru_cache
        fm.cache = _lru_cache(None)
        m["functools"] = fm

        import unicodedata as _ud

        def ud_normalize(form, s_):
            if getattr(s_, "_ostr", False):
                # an arbitrary string need not be stable under normalisation: the result is another opaque string
                return OStr("%s(%s)" % (form, s_.name), nonempty=s_._nonempty, parent=s_)
            return _ud.normalize(form, s_)
        udm = types.ModuleType("unicodedata")
        udm.__dict__.update({k: v for k, v in vars(_ud).items() if not k.startswith("__")})
        udm.normalize = ud_normalize
        m["unicodedata"] = udm

        # --- glob / fnmatch over the abstract filesystem
        import glob as _glob
        import fnmatch as _fnmatch
        import posixpath as _pp

        def _rec_dirs(d):
            """d and every directory below it that `**` visits (hidden directories are not entered)."""
            out = [d]
            for n in fs.listdir(d or "."):
                if n.startswith("."):
                    continue
                p = _pp.join(d, n) if d else n
                if fs.isdir(p):
                    out.extend(_rec_dirs(p))
            return out

        def _expand(base, parts, recursive=False):
            if not parts:
                return [base]
            head, rest = parts[0], parts[1:]
            out = []
            if head == "**" and recursive:
                d0 = base or "."
                if not fs.isdir(d0):
                    return []
                for d in _rec_dirs(base):
                    if rest:
                        out.extend(_expand(d, rest, recursive))
                    else:
                        # a trailing ** matches the directories themselves and every non-hidden entry below them
                        out.append(d + "/" if d == base and base else d)
                        for n in fs.listdir(d or "."):
                            p = _pp.join(d, n) if d else n
                            if not n.startswith(".") and not fs.isdir(p):
                                out.append(p)
                return out
            if head == "**":
                head = "*"
            if _glob.has_magic(head):
                d = base or "."
                if not fs.isdir(d):
                    return []
                for n in fs.listdir(d):
                    if n.startswith(".") and not head.startswith("."):
                        continue
                    if _fnmatch.fnmatchcase(n, head):
                        out.extend(_expand(_pp.join(base, n) if base else n, rest, recursive))
            else:
                cand = _pp.join(base, head) if base else head
                if fs.exists(cand) or (rest and fs.isdir(cand)):
                    out.extend(_expand(cand, rest, recursive))
            return out

        def glob_glob(pathname, *, recursive=False, root_dir=None, **kw):
            if root_dir is not None or kw.get("include_hidden"):
                raise Unsupported("glob(root_dir/include_hidden)")
            pathname = _os.fspath(pathname)
            parts = pathname.split("/")
            base = ""
            if pathname.startswith("/"):
                base, parts = "/", parts[1:]
            parts = [x for x in parts if x != ""] if not pathname.endswith("/") else [x for x in parts if x != ""]
            return _expand(base, parts, recursive)

        m["glob"] = types.SimpleNamespace(glob=glob_glob, iglob=lambda *a, **k: iter(glob_glob(*a, **k)), escape=_glob.escape,
                                          has_magic=_glob.has_magic)
        m["fnmatch"] = _fnmatch

        # --- configparser: a mapping with lower-cased keys and string values
        class ConfigParser:
            def __init__(self, *a, **k):
                self._d = {}
                self._inline = bool(k.get("inline_comment_prefixes"))
                for opt in k:
                    if opt not in ("inline_comment_prefixes", "interpolation", "allow_no_value", "strict"):
                        raise Unsupported("ConfigParser(%s=...)" % opt)

            def _val(self, v):
                # with inline comment prefixes a value is cut at the first ' #' / ' ;'
                if self._inline and isinstance(v, OStr) and v._nonempty is not False:
                    if getattr(v, "_inline_cut", None) is None:
                        v._inline_cut = OStr(v.name + ".before-inline-comment") if eng().choice(v.name + ".has-inline-comment", 2) else False
                    if v._inline_cut is not False:
                        return v._inline_cut
                return v

            def read(self, filenames, encoding=None):
                # like the real one: a list of names or one name; files that cannot be opened are skipped; what is
                # read is MERGED into what the parser already holds (later values win, other options stay)
                names = [filenames] if isinstance(filenames, (str, _os.PathLike)) or hasattr(filenames, "__fspath__") else list(filenames)
                done = []
                for path in names:
                    try:
                        with fs.open(path, "rb") as fd:
                            data = fd.read()
                    except OSError:
                        continue
                    seg = data.segs[0] if len(data.segs) == 1 else None
                    if not seg or seg[0] != "T" or not (isinstance(seg[1], tuple) and seg[1][0] == "INI"):
                        raise Unsupported("configparser.read of a non-INI token")
                    for sec, kv in seg[1][1].items():
                        self._d.setdefault(sec, {}).update({str(k).lower(): self._val(v) for k, v in kv.items()})
                    done.append(path)
                return done

            def __getitem__(self, sec):
                if sec not in self._d:
                    raise KeyError(sec)
                return self._d[sec]

            def __contains__(self, sec):
                return sec in self._d

            def sections(self):
                return list(self._d)

            def has_section(self, s):
                return s in self._d

            def get(self, sec, key, **k):
                return self._d[sec][key.lower()]

            def items(self, sec):
                return list(self._d[sec].items())

        m["configparser"] = types.SimpleNamespace(ConfigParser=ConfigParser)

        # --- filecmp: the documented algorithm over the AFS
        def filecmp_cmp(f1, f2, shallow=True):
            s1, s2 = fs.stat(f1), fs.stat(f2)
            reg1, reg2 = (s1.st_mode & 0o170000) == 0o100000, (s2.st_mode & 0o170000) == 0o100000
            if not reg1 or not reg2:
                return False
            if shallow and tb(s1.st_size == s2.st_size) and s1.st_mtime == s2.st_mtime:
                return True
            if not tb(s1.st_size == s2.st_size):
                return False
            with fs.open(f1, "rb") as a, fs.open(f2, "rb") as b:
                return bool(a.read() == b.read())
        m["filecmp"] = types.SimpleNamespace(cmp=filecmp_cmp, clear_cache=lambda: None)
        return m

    # ---------------------------------------------------------------- builtins
    def _builtins(self):
        b = dict(vars(_bi))
        b.update(
            len=sym_len, range=sym_range,
            int=shim(int, sym_int, (SymInt,)),
            str=shim(str, sym_str, (SymStr, OStr)),
            float=shim(float, sym_float),
            bytes=ABuf, bytearray=ABuf, __abuf__=ABuf, __symdict__=core.SymDict, __join__=_sym_join,
            memoryview=lambda x: _abuf.AView(x) if isinstance(x, (ABuf, _abuf.AView)) else _bi.memoryview(x),
            open=self.fs.open,
            print=lambda *a, **k: None,
            input=_no_input,
            __import__=self._import,
        )
        return b

    def _import(self, name, globals=None, locals=None, fromlist=(), level=0):
        if level:
            raise Unsupported("relative import")
        if name == "torrentfile" or name.startswith("torrentfile."):
            if name == "torrentfile":
                pkg = self._package()
                for f in fromlist or ():
                    getattr(pkg, f)
                return pkg
            sub = name.split(".", 1)[1]
            mod = self.mod(sub)
            return mod if fromlist else self._package()
        if name in self._models:
            top = name.split(".")[0]
            return self._models[name] if fromlist else self._models[top]
        if name == "logging":
            return _logging_facade()
        if name == "re":
            from . import rex as _rex
            return _rex.facade()
        if name in INERT or name.split(".")[0] in INERT:
            return _bi.__import__(name, globals, locals, fromlist, level)
        return _Proxy(name)

    def _package(self):
        w = self

        class Pkg(types.ModuleType):
            def __getattr__(self, n):
                if n.startswith("__"):
                    raise AttributeError(n)
                if _os.path.exists(_os.path.join(PKG, n + ".py")):
                    return w.mod(n)
                raise AttributeError(n)
        if "__pkg__" not in self.mods:
            self.mods["__pkg__"] = Pkg("torrentfile")
        return self.mods["__pkg__"]

    def mod(self, name):
        """The torrentfile submodule `name`, freshly executed in this world."""
        if name in self.mods:
            return self.mods[name]
        code = _compile(name, tuple(self.mutants.get(name, ())) or None)
        mod = types.ModuleType("torrentfile." + name)
        mod.__file__ = _os.path.join(PKG, name + ".py")
        mod.__dict__["__builtins__"] = self._bi
        self.mods[name] = mod
        exec(code, mod.__dict__)
        if name == "mixins":
            mod.ProgressBar = NullBar
        return mod


def _sys_exit(code=0):
    raise SystemExit(code)


def _no_input(*a):
    raise Unsupported("input()")


def functions_encoded(mods):
    """Function inventory for the evidence file: (module, qualname, lines)."""
    out = []
    for m in mods:
        try:
            tree = ast.parse(source_of(m))
        except OSError:
            continue

        def walk(node, prefix):
            for n in ast.iter_child_nodes(node):
                if isinstance(n, (ast.FunctionDef, ast.AsyncFunctionDef)):
                    out.append("%s.py:%s%s:%d-%d" % (m, prefix, n.name, n.lineno, n.end_lineno))
                elif isinstance(n, ast.ClassDef):
                    walk(n, prefix + n.name + ".")
        walk(tree, "")
    return out
