"""Abstract filesystem: concrete tree shape and names, symbolic sizes, abstract
contents, adversarial / symbolic listing order, mutation log and fault points.

POSIX path semantics via the real `posixpath`; no symlinks, special files,
permissions or concurrent writers.
"""
import errno
import posixpath
import types
import itertools
from pathlib import PurePosixPath

from .core import Unsupported, Crash, tb, eng, SymInt
from .abuf import ABuf


def listing_orders(n):
    """Candidate enumeration orders of a directory with n entries: every
    permutation up to four entries; beyond that sorted, reversed and every
    rotation of both (stated bound)."""
    if n <= 4:
        return list(itertools.permutations(range(n)))
    base = list(range(n))
    perms = []
    for b in (base, base[::-1]):
        for r in range(n):
            p = tuple(b[r:] + b[:r])
            if p not in perms:
                perms.append(p)
    return perms


class Node:
    __slots__ = ("content", "ino")

    def __init__(self, content):
        self.content = content
        self.ino = None


class Partial:
    """A strict prefix of a token (short / interrupted write)."""

    def __init__(self, tok, n):
        self.tok, self.n = tok, n

    def __eq__(self, o):
        return False

    def __hash__(self):
        return 5

    def __repr__(self):
        return "Partial(%r)" % (self.tok,)


class FaultPlan:
    """Inject one fault at mutating-operation number `at` (symbolic).

    kind: 'crash' (process dies before the operation takes effect),
          'eperm' (PermissionError, no effect), 'enospc' (OSError(ENOSPC); a
          write has stored a strict prefix), 'short' (a write stores a strict
          prefix, then the process dies)."""

    def __init__(self, at, kind):
        self.at, self.kind = at, kind
        self.fired = None


def _ancestors(path):
    out = []
    d = posixpath.dirname(path)
    while d not in ("/", ""):
        out.append(d)
        d = posixpath.dirname(d)
    return out


class AFS:
    def __init__(self, cwd="/cwd", order="reversed", home="/home/u", tag=""):
        self.tag = tag
        self.files = {}          # abs path -> Node
        self.dirs = {"/"}
        self.cwd = cwd
        self.home = home
        self.log = []            # mutating operations, in order
        self.reads = []          # read-mode opens
        self.order = order       # 'reversed' | 'sorted' | 'symbolic'
        self._perm = {}
        self.fault = None
        self.nops = 0
        self.clock = 1
        self.mtime = {}
        self.ino = {}
        self.links = {}          # abs path of a symbolic link -> target string (links to regular files only)
        self.dead = False        # set by a simulated process death: nothing the (dead) process does afterwards has any effect
        self._handles = []       # write handles with data whose buffering is not decided yet
        self._settling = False
        self.mkdirs(cwd)
        self.mkdirs(home)

    # ---- construction (harness side; not logged) -------------------------
    def mkdirs(self, d):
        d = posixpath.normpath(d)
        while d not in self.dirs:
            if d in self.files:
                raise ValueError("harness error: directory %s where a file already is" % d)
            self.dirs.add(d)
            d = posixpath.dirname(d)

    def add(self, path, fid, size):
        path = posixpath.normpath(posixpath.join(self.cwd, path))
        if path in self.dirs or any(d in self.files for d in _ancestors(path)):
            raise ValueError("harness error: %s is (below) an existing entry of the other kind" % path)
        self.mkdirs(posixpath.dirname(path))
        existed = path in self.files
        self.files[path] = Node(ABuf.file(fid, size))
        self.touch(path, entry=not existed)
        return path

    def add_content(self, path, content):
        path = posixpath.normpath(posixpath.join(self.cwd, path))
        if path in self.dirs or any(d in self.files for d in _ancestors(path)):
            raise ValueError("harness error: %s is (below) an existing entry of the other kind" % path)
        self.mkdirs(posixpath.dirname(path))
        existed = path in self.files
        self.files[path] = Node(content)
        self.touch(path, entry=not existed)
        return path

    def add_token(self, path, tok, size=None):
        return self.add_content(path, ABuf.of([("T", tok, 0, size)]))

    def add_link(self, path, target):
        """A symbolic link at `path` pointing to the regular file `target` (harness side; not logged)."""
        path = posixpath.normpath(posixpath.join(self.cwd, path))
        self.mkdirs(posixpath.dirname(path))
        self.links[path] = target
        self.touch(path, entry=True)
        return path

    # ---- resolution ------------------------------------------------------
    def resolve(self, p, follow=True, _depth=0):
        """Absolute normalised path, or None when an intermediate component is
        missing or not a directory (POSIX lookup).  Symbolic links are followed in intermediate components always and
        in the last component when `follow` is set."""
        p = _s(p)
        if p == "":
            return None
        if _depth > 12:
            raise OSError(errno.ELOOP, "Too many levels of symbolic links", p)
        full = posixpath.join(self.cwd, p)
        cur = "/"
        parts = [c for c in full.split("/") if c not in ("", ".")]
        trailing = full.endswith("/") or full.endswith("/.")
        for i, c in enumerate(parts):
            if cur not in self.dirs:
                return None
            if c == "..":
                cur = posixpath.dirname(cur)
                continue
            cur = posixpath.join(cur, c)
            last = i == len(parts) - 1
            if cur in self.links and (not last or follow or trailing):
                save = self.cwd
                self.cwd = posixpath.dirname(cur)
                try:
                    cur = self.resolve(self.links[cur], True, _depth + 1)
                finally:
                    self.cwd = save
                if cur is None:
                    return None
        if trailing and cur in self.files:
            return None
        return cur

    def abs(self, p):
        return posixpath.normpath(posixpath.join(self.cwd, _s(p)))

    # ---- queries -----------------------------------------------------------
    def exists(self, p):
        try:
            r = self.resolve(p)
        except TypeError:
            raise
        return r is not None and (r in self.files or r in self.dirs)

    def isfile(self, p):
        return self.resolve(p) in self.files

    def isdir(self, p):
        r = self.resolve(p)
        return r is not None and r in self.dirs

    def getsize(self, p):
        r = self.resolve(p)
        if r in self.files:
            return self.files[r].content.size()
        if r is not None and r in self.dirs:
            return 4096
        raise FileNotFoundError(errno.ENOENT, "No such file or directory", _s(p))

    def children(self, d):
        pre = d.rstrip("/") + "/"
        names = set()
        for x in itertools.chain(self.files, self.dirs, self.links):
            if x.startswith(pre) and x != d:
                names.add(x[len(pre):].split("/")[0])
        return sorted(names)

    def listdir(self, p="."):
        r = self.resolve(p)
        if r is None or (r not in self.dirs and r not in self.files):
            raise FileNotFoundError(errno.ENOENT, "No such file or directory", _s(p))
        if r not in self.dirs:
            raise NotADirectoryError(errno.ENOTDIR, "Not a directory", _s(p))
        names = self.children(r)
        if self.order == "sorted" or len(names) < 2:
            return names
        if self.order == "reversed":
            return names[::-1]
        key = (r, tuple(names))
        if key not in self._perm:
            perms = listing_orders(len(names))
            k = eng().choice("perm%s:%s:%d" % (self.tag, r, len(self._perm)), len(perms))
            self._perm[key] = perms[k]
        return [names[i] for i in self._perm[key]]

    # ---- mutation ----------------------------------------------------------
    def touch(self, *paths, entry=True):
        """Bump modification times: of the path itself, and of its parent
        directory only when a directory entry appears or disappears."""
        self.clock += 1
        for p in paths:
            self.mtime[p] = self.clock
            if entry:
                self.mtime[posixpath.dirname(p)] = self.clock
            self.ino.setdefault(p, len(self.ino) + 100)

    def link(self, src, dst):
        """Hard link: two names for one file (harness side and os.link)."""
        s, d = self.resolve(src), self.resolve(dst)
        self._parent_ok(d, dst)
        if d in self.files or d in self.dirs:
            raise FileExistsError(errno.EEXIST, "File exists", _s(dst))
        self._op("link", s, d)
        self.files[d] = self.files[s]

    def stat(self, p, follow=True):
        r = self.resolve(p, follow)
        if r is not None and r in self.links:
            m = self.mtime.get(r, 1)
            return types.SimpleNamespace(st_size=len(self.links[r]), st_mode=0o120777, st_ino=self.ino.setdefault(r, len(self.ino) + 100),
                                         st_mtime_ns=m * 1000000000, st_mtime=float(m), st_ctime_ns=m * 1000000000, st_ctime=float(m),
                                         st_dev=1, st_nlink=1, st_uid=0, st_gid=0, st_atime=float(m), st_atime_ns=m * 1000000000)
        if r is None or (r not in self.files and r not in self.dirs):
            raise FileNotFoundError(errno.ENOENT, "No such file or directory", _s(p))
        isdir = r in self.dirs
        if isdir:
            size = 4096
        else:
            try:
                size = self.files[r].content.size()
            except Unsupported:
                size = eng().int("st_size:%s" % r, 2, None)
        m = self.mtime.get(r, 1)
        nlink = 1 if isdir else sum(1 for n in self.files.values() if n is self.files[r])
        if isdir:
            ino = self.ino.setdefault(r, len(self.ino) + 100)
        else:
            # the inode belongs to the file, not to the name: every hard link reports the same number
            node = self.files[r]
            if getattr(node, "ino", None) is None:
                node.ino = self.ino.setdefault(("node", id(node)), len(self.ino) + 100)
            ino = node.ino
        return types.SimpleNamespace(st_size=size, st_mode=(0o040755 if isdir else 0o100644), st_ino=ino,
                                     st_mtime_ns=m * 1000000000, st_mtime=float(m), st_ctime_ns=m * 1000000000, st_ctime=float(m),
                                     st_dev=1, st_nlink=nlink, st_uid=0, st_gid=0, st_atime=float(m), st_atime_ns=m * 1000000000)

    def _op(self, *entry):
        """Record a mutating operation; fault point."""
        if self.dead:
            # exception handlers and finalisers of the code under test run in the model while the stack unwinds, but
            # the process they belong to no longer exists
            raise Crash("the process is dead (%r not performed)" % (entry,))
        if self._handles and not self._settling:
            # something else happens while written data of unknown length may or may not still sit in a buffer:
            # now it matters, decide (fork)
            self._settling = True
            try:
                for h in list(self._handles):
                    h.settle()
            finally:
                self._settling = False
        for a in entry[1:]:
            if isinstance(a, str) and a.startswith("/"):
                exists = a in self.files or a in self.dirs
                self.touch(a, entry=(entry[0] in ("remove", "rmdir", "mkdir", "rename") or not exists))
        k = self.nops
        self.nops += 1
        f = self.fault
        if f is not None and f.fired is None and tb(f.at == k):
            f.fired = (k, entry)
            if f.kind == "crash":
                self.log.append(("CRASH-before",) + entry)
                self.dead = True
                raise Crash("crash before op %d %r" % (k, entry))
            if f.kind == "eperm":
                self.log.append(("EPERM",) + entry)
                raise PermissionError(errno.EACCES, "Permission denied", entry[1])
            if f.kind == "shortret":
                self.log.append(entry)
                return "shortret" if entry[0] == "write" else None
            if f.kind in ("enospc", "short"):
                if entry[0] in ("write", "copy-write"):
                    return f.kind
                if f.kind == "enospc":
                    self.log.append(("ENOSPC",) + entry)
                    raise OSError(errno.ENOSPC, "No space left on device", entry[1])
                self.log.append(("CRASH-before",) + entry)
                self.dead = True
                raise Crash("crash before op %d %r" % (k, entry))
        self.log.append(entry)
        return None

    def _parent_ok(self, r, p):
        if any(len(c.encode("utf-8", "surrogateescape")) > 255 for c in _s(p).split("/")):
            raise OSError(errno.ENAMETOOLONG, "File name too long", _s(p))
        if r is None or posixpath.dirname(r) not in self.dirs:
            raise FileNotFoundError(errno.ENOENT, "No such file or directory", _s(p))

    def open(self, p, mode="r", *a, **kw):
        if not isinstance(p, (str, PurePosixPath)):
            raise Unsupported("open(%r)" % (p,))
        m = mode.replace("t", "")
        binary = "b" in m
        m = m.replace("b", "")
        r = self.resolve(p)
        if m == "r":
            if r is None or (r not in self.files and r not in self.dirs):
                raise FileNotFoundError(errno.ENOENT, "No such file or directory", _s(p))
            if r in self.dirs:
                raise IsADirectoryError(errno.EISDIR, "Is a directory", _s(p))
            self.reads.append(r)
            f = AFile(self.files[r].content, binary)
            f._path = r
            return f
        if m in ("w", "a", "x", "r+", "w+", "a+"):
            self._parent_ok(r, p)
            if r in self.dirs:
                raise IsADirectoryError(errno.EISDIR, "Is a directory", _s(p))
            if m == "x" and r in self.files:
                raise FileExistsError(errno.EEXIST, "File exists", _s(p))
            if m == "r+" and r not in self.files:
                raise FileNotFoundError(errno.ENOENT, "No such file or directory", _s(p))
            self._op("open-" + m, r)
            if r not in self.files:
                self.files[r] = Node(ABuf.of([]))
            elif m in ("w", "w+"):
                self.files[r].content = ABuf.of([])      # truncate in place (other hard links see it too)
            buffering = kw.get("buffering", a[0] if a else -1)
            return AWFile(self, r, m, unbuffered=(buffering == 0))
        raise Unsupported("open mode %r" % mode)

    def remove(self, p):
        r = self.resolve(p, follow=False)
        if r is not None and r in self.links:
            self._op("remove", r)
            del self.links[r]
            return
        if r is None or (r not in self.files and r not in self.dirs):
            raise FileNotFoundError(errno.ENOENT, "No such file or directory", _s(p))
        if r in self.dirs:
            raise IsADirectoryError(errno.EISDIR, "Is a directory", _s(p))
        self._op("remove", r)
        del self.files[r]

    def rmdir(self, p):
        r = self.resolve(p)
        if r is None or r not in self.dirs:
            raise FileNotFoundError(errno.ENOENT, "No such file or directory", _s(p))
        if self.children(r):
            raise OSError(errno.ENOTEMPTY, "Directory not empty", _s(p))
        self._op("rmdir", r)
        self.dirs.discard(r)

    def mkdir(self, p, mode=0o777):
        r = self.resolve(p)
        self._parent_ok(r, p)
        if r in self.dirs or r in self.files:
            raise FileExistsError(errno.EEXIST, "File exists", _s(p))
        self._op("mkdir", r)
        self.dirs.add(r)

    def makedirs(self, p, mode=0o777, exist_ok=False):
        full = self.abs(p)
        todo = []
        cur = full
        while cur not in self.dirs:
            if cur in self.files:
                raise FileExistsError(errno.EEXIST, "File exists", cur)
            todo.append(cur)
            cur = posixpath.dirname(cur)
        if not todo and not exist_ok:
            raise FileExistsError(errno.EEXIST, "File exists", _s(p))
        for d in reversed(todo):
            self._op("mkdir", d)
            self.dirs.add(d)

    def rename(self, src, dst, replace=False):
        s, d = self.resolve(src, follow=False), self.resolve(dst, follow=False)
        if s is not None and s in self.links:
            self._parent_ok(d, dst)
            if d in self.dirs:
                raise IsADirectoryError(errno.EISDIR, "Is a directory", _s(dst))
            self._op("rename", s, d)
            self.files.pop(d, None)
            self.links[d] = self.links.pop(s)
            return
        if d is not None and d in self.links and s in self.files:
            self._op("rename", s, d)
            del self.links[d]
            self.files[d] = self.files.pop(s)
            return
        if s is None or (s not in self.files and s not in self.dirs):
            raise FileNotFoundError(errno.ENOENT, "No such file or directory", _s(src))
        self._parent_ok(d, dst)
        if s in self.dirs:
            if d in self.files:
                raise NotADirectoryError(errno.ENOTDIR, "Not a directory", _s(dst))
            if d in self.dirs and self.children(d):
                raise OSError(errno.ENOTEMPTY, "Directory not empty", _s(dst))
            self._op("rename", s, d)
            pre = s + "/"
            for x in [x for x in self.files if x.startswith(pre)]:
                self.files[d + "/" + x[len(pre):]] = self.files.pop(x)
            for x in [x for x in self.dirs if x == s or x.startswith(pre)]:
                self.dirs.discard(x)
                self.dirs.add(d + x[len(s):])
            return
        if d in self.dirs:
            raise IsADirectoryError(errno.EISDIR, "Is a directory", _s(dst))
        # POSIX rename replaces an existing file silently
        self._op("rename", s, d)
        self.files[d] = self.files.pop(s)

    def copy(self, src, dst, **kw):
        s, d = self.resolve(src), self.resolve(dst)
        if s is None or s not in self.files:
            if s in self.dirs:
                raise IsADirectoryError(errno.EISDIR, "Is a directory", _s(src))
            raise FileNotFoundError(errno.ENOENT, "No such file or directory", _s(src))
        if d is not None and d in self.dirs:
            d = posixpath.join(d, posixpath.basename(s))
        self._parent_ok(d, dst)
        if d == s:
            raise Unsupported("shutil.SameFileError")
        data = ABuf(self.files[s].content)
        self._op("copy", s, d)                  # the destination is opened (created / truncated) ...
        if d in self.files:
            self.files[d].content = ABuf.of([])
        else:
            self.files[d] = Node(ABuf.of([]))
        fault = self._op("copy-write", d)       # ... and then filled
        if fault in ("enospc", "short"):
            self.files[d].content = _strict_prefix(data)
            if fault == "enospc":
                self.log.append(("ENOSPC-partial", d))
                raise OSError(errno.ENOSPC, "No space left on device", d)
            self.log.append(("CRASH-partial", d))
            self.dead = True
            raise Crash("crash during copy to %s" % d)
        self.files[d].content = data
        return d

    def copyfile(self, src, dst, **kw):
        d = self.resolve(dst)
        if d is not None and d in self.dirs:
            raise IsADirectoryError(errno.EISDIR, "Is a directory", _s(dst))
        return self.copy(src, dst)

    def move(self, src, dst):
        d = self.resolve(dst)
        if d is not None and d in self.dirs:
            dst = posixpath.join(_s(dst), posixpath.basename(_s(src).rstrip("/")))
        self.rename(src, dst)
        return dst

    def clone(self, tag=None):
        c = AFS.__new__(AFS)
        c.__dict__.update(self.__dict__)
        seen = {}
        c.files = {}
        for p, n in self.files.items():
            if id(n) not in seen:
                seen[id(n)] = Node(ABuf(n.content))
            c.files[p] = seen[id(n)]
        c.dirs = set(self.dirs)
        c.log = []
        c.reads = []
        c._perm = dict(self._perm)
        c.fault = None
        c.dead = False
        c._handles = []
        c._settling = False
        c.nops = 0
        c.mtime = dict(self.mtime)
        c.ino = dict(self.ino)
        c.links = dict(self.links)
        if tag is not None:
            c.tag = tag
        return c

    # ---- state comparison ----------------------------------------------------
    def snapshot(self):
        return ({p: ABuf(n.content) for p, n in self.files.items()}, set(self.dirs) | {"@link:%s->%s" % kv for kv in self.links.items()})

    def diff(self, snap, ignore=()):
        """Paths whose presence or content differs from the snapshot."""
        files0, dirs0 = snap
        out = []
        for p in sorted(set(files0) | set(self.files)):
            if p in ignore:
                continue
            if p not in self.files:
                out.append(("removed", p))
            elif p not in files0:
                out.append(("created", p))
            elif not (files0[p] == self.files[p].content):
                out.append(("changed", p))
        for d in sorted(dirs0 ^ (self.dirs | {"@link:%s->%s" % kv for kv in self.links.items()})):
            if d in ignore:
                continue
            out.append(("dir-removed" if d in dirs0 else "dir-created", d))
        return out

    # ---- module models ---------------------------------------------------------
    def os(self):
        return OsModel(self)

    def shutil(self):
        return ShutilModel(self)

    def Path(self):
        fs = self

        class Path(PurePosixPath):
            def is_file(self):
                return fs.isfile(str(self))

            def is_dir(self):
                return fs.isdir(str(self))

            def exists(self):
                return fs.exists(str(self))

            def iterdir(self):
                return iter([self / n for n in fs.listdir(str(self))])

            def stat(self, **k):
                return fs.stat(str(self))

            def resolve(self, strict=False):
                return Path(fs.abs(str(self)))

            def absolute(self):
                return Path(posixpath.join(fs.cwd, str(self)))

            def expanduser(self):
                t = str(self)
                if t == "~" or t.startswith("~/"):
                    return Path(fs.home + t[1:])
                if t.startswith("~"):
                    raise Unsupported("Path.expanduser for another user's home")
                return self

            def open(self, mode="r", *a, **k):
                return fs.open(str(self), mode)

            def mkdir(self, mode=0o777, parents=False, exist_ok=False):
                if parents:
                    return fs.makedirs(str(self), exist_ok=exist_ok)
                try:
                    fs.mkdir(str(self))
                except FileExistsError:
                    if not exist_ok or not fs.isdir(str(self)):
                        raise

            def unlink(self, missing_ok=False):
                try:
                    fs.remove(str(self))
                except FileNotFoundError:
                    if not missing_ok:
                        raise

            def rename(self, target):
                fs.rename(str(self), str(target))
                return Path(str(target))

            def replace(self, target):
                fs.rename(str(self), str(target))
                return Path(str(target))

            def read_bytes(self):
                with fs.open(str(self), "rb") as f:
                    return f.read()

            def write_bytes(self, data):
                with fs.open(str(self), "wb") as f:
                    f.write(data)

            @classmethod
            def home(cls):
                return cls(fs.home)

            @classmethod
            def cwd(cls):
                return cls(fs.cwd)

            def __getattr__(self, name):
                if name.startswith("_"):
                    raise AttributeError(name)
                raise Unsupported("Path.%s not modelled" % name)
        return Path


def _s(p):
    if isinstance(p, str):
        return p
    if isinstance(p, PurePosixPath):
        return str(p)
    if hasattr(p, "__fspath__"):
        return p.__fspath__()
    raise TypeError("expected str, bytes or os.PathLike object, not %s" % type(p).__name__)


class AFile:
    """Read-mode file over an abstract content buffer. Regular files never
    return short reads before EOF."""

    def __init__(self, content, binary=True):
        self.content = ABuf(content)
        self.pos = 0
        self.closed = False
        self.binary = binary
        segs = self.content.segs
        self._single = segs[0] if len(segs) == 1 and segs[0][0] == "F" else None
        self._tok = len(segs) == 1 and segs[0][0] == "T"

    def _chk(self):
        if self.closed:
            raise ValueError("I/O operation on closed file.")

    def _take(self, n):
        """Next n bytes (n already clipped to what is left)."""
        if self._single is not None:
            k, fid, off, sz = self._single
            r = ABuf.of([("F", fid, off + self.pos, n)])
        else:
            r = self.content[self.pos:self.pos + n]
        self.pos = self.pos + n
        return r

    def _left(self):
        if self._single is not None:
            return self._single[3] - self.pos
        return self.content.size() - self.pos

    def readinto(self, buf):
        self._chk()
        from .abuf import AView
        if isinstance(buf, AView):
            want = buf.size()
            left = self._left()
            n = want if tb(want <= left) else left
            if tb(n <= 0):
                return 0
            buf.write_prefix(self._take(n))
            return n
        if not isinstance(buf, ABuf):
            raise Unsupported("readinto(%s)" % type(buf).__name__)
        want = buf.size()
        left = self._left()
        n = want if tb(want <= left) else left
        if tb(n <= 0):
            return 0
        rest = buf[n:]
        buf.segs = self._take(n).segs + rest.segs
        return n

    def read(self, n=None):
        self._chk()
        if self._tok:
            if n is not None and not (isinstance(n, int) and n < 0):
                raise Unsupported("partial read of token file")
            if self.pos:
                return ABuf.of([])
            self.pos = 1
            return ABuf(self.content)
        left = self._left()
        if n is None or tb(n < 0) or tb(n > left):
            n = left
        return self._take(n)

    def seek(self, p, whence=0):
        self._chk()
        if whence == 1:
            p = self.pos + p
        elif whence == 2:
            p = self.content.size() + p
        self.pos = p
        return p

    def tell(self):
        return self.pos

    def close(self):
        self.closed = True

    def fileno(self):
        if getattr(self, "_path", None) is None:
            raise Unsupported("fileno of an anonymous read file")
        return _RFd(self._path)

    def __enter__(self):
        self._chk()
        return self

    def __exit__(self, *a):
        self.close()

    def __getattr__(self, name):
        raise Unsupported("file.%s not modelled" % name)


BUFFER_SIZE = 4096      # what io.open gives a regular file (st_blksize); writes at least this large bypass the buffer


class AWFile:
    """A file object open for writing.  It refers to the file (inode), not to the name it was opened under: a rename
    of the name while the handle is open takes the handle along.  Unless opened with buffering=0, written data sits in
    the process's own buffer until flush / close / seek / truncate - or goes straight to the file when it is large;
    with a length the model does not know both happen (fork)."""

    def __init__(self, fs, path, mode, unbuffered=False):
        self.fs, self.path, self.mode, self.closed = fs, path, mode, False
        self.name = path
        self.node = fs.files.get(path)
        self.unbuffered = unbuffered
        self.pending = []
        self.pos = 0 if mode in ("r+",) else None      # overwrite-in-place position (None = append semantics)

    def _visible(self):
        """Is the file still reachable under some name (otherwise the bytes go nowhere visible)?"""
        return any(n is self.node for n in self.fs.files.values())

    def _where(self):
        for p, n in self.fs.files.items():
            if n is self.node:
                return p
        return self.path

    def write(self, data):
        if self.closed:
            raise ValueError("I/O operation on closed file.")
        if isinstance(data, str):
            data = ABuf.of([("T", ("text", data), 0, None)])
        if not isinstance(data, ABuf):
            data = ABuf(data)
        if self.unbuffered:
            return self._emit(data)
        try:
            n = data.size()
        except Unsupported:
            n = None
        if isinstance(n, int) and n >= BUFFER_SIZE:
            self.flush()
            self._emit(data)
            return n
        self.pending.append(data)
        if not isinstance(n, int) and self not in self.fs._handles:
            self.fs._handles.append(self)        # length unknown: buffered or written through - decided when it matters
        return n if n is not None else 1

    def settle(self):
        """Another filesystem operation is about to happen while data of unknown length is pending."""
        if self in self.fs._handles:
            self.fs._handles.remove(self)
        if self.pending and eng().choice("buffered:%s:%d" % (self.path, self.fs.nops), 2) == 0:
            self.flush()

    def _emit(self, data):
        path = self._where()
        fault = self.fs._op("write", path)
        node = self.node
        if node is None or not self._visible():        # unlinked while open: bytes go nowhere visible
            return 0
        if fault == "shortret":
            if self.unbuffered:
                # a raw (unbuffered) write may store fewer bytes than given and say so in its return value
                pre = _strict_prefix(data)
                node.content.extend(pre)
                self.fs.log.append(("SHORT-RETURN", path))
                try:
                    return pre.size()
                except Unsupported:
                    return 1
            fault = None        # buffered writers retry until everything is written
        if fault in ("enospc", "short"):
            node.content.extend(_strict_prefix(data))
            if fault == "enospc":
                self.fs.log.append(("ENOSPC-partial", path))
                raise OSError(errno.ENOSPC, "No space left on device", path)
            self.fs.log.append(("CRASH-partial", path))
            self.fs.dead = True
            raise Crash("crash during write to %s" % path)
        if self.pos is not None:
            # r+ / no O_TRUNC: overwrite from the current position, whatever lies beyond the written bytes stays
            n = data.size()
            head = node.content[:self.pos]
            tail = node.content[self.pos + n:]
            node.content.segs = head.segs + data.segs + tail.segs
            self.pos = self.pos + n
            return n
        node.content.extend(data)
        try:
            return data.size()
        except Unsupported:
            return 1

    def flush(self):
        if self.closed:
            raise ValueError("I/O operation on closed file.")
        if self in self.fs._handles:
            self.fs._handles.remove(self)
        if self.pending:
            data = ABuf.of([])
            for d in self.pending:
                data.extend(d)
            self.pending = []
            self._emit(data)

    def truncate(self, size=None):
        self.flush()
        node = self.node
        self.fs._op("truncate", self._where())
        if node is not None:
            at = self.pos if size is None else size
            if at is None:
                return
            node.content.segs = node.content[:at].segs

    def seek(self, p, whence=0):
        if self.pos is None:
            raise Unsupported("seek on an append-mode file")
        self.flush()
        if whence == 2:
            p = self.node.content.size() + p
        elif whence == 1:
            p = self.pos + p
        self.pos = p
        return p

    def fileno(self):
        return _Fd(self)

    def tell(self):
        if self.pos is None:
            raise Unsupported("tell on write file")
        return self.pos

    def close(self):
        if self.closed:
            return
        try:
            self.flush()
        finally:
            self.closed = True

    def __enter__(self):
        return self

    def __exit__(self, *a):
        self.close()

    def __getattr__(self, name):
        raise Unsupported("file.%s not modelled" % name)


class _RFd:
    """fileno() of a file open for reading: good for os.fstat."""

    def __init__(self, path):
        self.path = path

    def __index__(self):
        return 4


class _Fd:
    """What fileno() / os.open return: good for os.fsync, os.fdopen, os.close, os.write."""

    def __init__(self, f):
        self.f = f

    def __index__(self):
        return 3


def _strict_prefix(data):
    """A strict prefix of `data` of arbitrary length (possibly empty)."""
    segs = [s for s in data.segs]
    if len(segs) == 1 and segs[0][0] == "T":
        if segs[0][3] is None:
            return ABuf.of([("T", Partial(segs[0][1], None), 0, None)])
        E = eng()
        w = E.int("short_write_%d" % len(E.inputs), 0, None)       # the token's length is known: so is the prefix's
        E.assume(w < segs[0][3])
        return ABuf.of([("T", Partial(segs[0][1], w), 0, w)]) if tb(w > 0) else ABuf.of([])
    E = eng()
    n = data.size()
    w = E.int("short_write_%d" % len(E.inputs), 0, None)
    E.assume(w < n)
    return data[:w]


class _PathMod:
    def __init__(self, fs):
        self._fs = fs
        self.sep = "/"
        self.altsep = None
        self.pardir = ".."
        self.curdir = "."
        for n in ("join", "split", "basename", "dirname", "normpath", "splitext", "isabs", "commonprefix",
                  "commonpath", "splitdrive", "normcase"):
            setattr(self, n, getattr(posixpath, n))

    def exists(self, p):
        return self._fs.exists(p)

    lexists = exists

    def isfile(self, p):
        return self._fs.isfile(p)

    def isdir(self, p):
        return self._fs.isdir(p)

    def islink(self, p):
        r = self._fs.resolve(p, follow=False)
        return r is not None and r in self._fs.links

    def symlink(self, src, dst, **k):
        fs = self._fs
        d = fs.resolve(dst, follow=False)
        fs._parent_ok(d, dst)
        if d in fs.files or d in fs.dirs or d in fs.links:
            raise FileExistsError(errno.EEXIST, "File exists", _s(dst))
        fs._op("symlink", d)
        fs.links[d] = _s(src)

    def readlink(self, p):
        r = self._fs.resolve(p, follow=False)
        if r is None or r not in self._fs.links:
            raise OSError(errno.EINVAL, "Invalid argument", _s(p))
        return self._fs.links[r]

    def getsize(self, p):
        return self._fs.getsize(p)

    def abspath(self, p):
        return self._fs.abs(p)

    def realpath(self, p, **k):
        r = self._fs.resolve(p)
        return r if r is not None else self._fs.abs(p)

    def relpath(self, p, start=None):
        if start is None:
            start = "."
        if _s(p) == "":
            raise ValueError("no path specified")
        return posixpath.relpath(self._fs.abs(p), self._fs.abs(start))

    def expanduser(self, p):
        p = _s(p)
        if p == "~" or p.startswith("~/"):
            return self._fs.home + p[1:]
        return p

    def samefile(self, a, b):
        return self._fs.resolve(a) == self._fs.resolve(b)

    def __getattr__(self, name):
        raise Unsupported("os.path.%s not modelled" % name)


class OsModel:
    def __init__(self, fs):
        self._fs = fs
        self.path = _PathMod(fs)
        self.sep = "/"
        self.altsep = None
        self.linesep = "\n"
        self.name = "posix"
        self.curdir = "."
        self.pardir = ".."
        self.devnull = "/dev/null"
        self.environ = {"TORRENTFILE_DEBUG": "OFF", "HOME": fs.home}
        import os as _os
        self.PathLike = _os.PathLike
        self.fspath = _os.fspath
        self.error = OSError
        self.listdir = fs.listdir
        self.mkdir = fs.mkdir
        self.makedirs = fs.makedirs
        self.remove = fs.remove
        self.unlink = fs.remove
        self.rmdir = fs.rmdir
        self.rename = fs.rename
        self.replace = fs.rename
        self.link = fs.link

    def getcwd(self):
        return self._fs.cwd

    def chdir(self, p):
        r = self._fs.resolve(p)
        if r is None or r not in self._fs.dirs:
            raise FileNotFoundError(errno.ENOENT, "No such file or directory", _s(p))
        self._fs.cwd = r

    def fstat(self, fd):
        if isinstance(fd, _RFd):
            return self._fs.stat(fd.path)
        if isinstance(fd, _Fd):
            fd.f.flush()
            return self._fs.stat(fd.f._where())
        raise Unsupported("os.fstat(%r)" % (fd,))

    def fsync(self, fd):
        return None          # pushes the *operating system's* buffers to the disk; the process's own buffer is not its business

    SEEK_SET, SEEK_CUR, SEEK_END = 0, 1, 2
    O_RDONLY, O_WRONLY, O_RDWR, O_APPEND, O_CREAT, O_EXCL, O_TRUNC, O_CLOEXEC = 0, 1, 2, 0o2000, 0o100, 0o200, 0o1000, 0o2000000

    def open(self, p, flags, mode=0o777, **k):
        fs = self._fs
        acc = flags & 3
        if acc == 0:
            raise Unsupported("os.open for reading")
        r = fs.resolve(p)
        fs._parent_ok(r, p)
        if r in fs.dirs:
            raise IsADirectoryError(errno.EISDIR, "Is a directory", _s(p))
        if r not in fs.files and not flags & self.O_CREAT:
            raise FileNotFoundError(errno.ENOENT, "No such file or directory", _s(p))
        if r in fs.files and flags & self.O_EXCL and flags & self.O_CREAT:
            raise FileExistsError(errno.EEXIST, "File exists", _s(p))
        fs._op("open-" + ("w" if flags & self.O_TRUNC else "r+"), r)
        if r not in fs.files:
            fs.files[r] = Node(ABuf.of([]))
        elif flags & self.O_TRUNC:
            fs.files[r].content = ABuf.of([])
        f = AWFile(fs, r, "r+" if not flags & self.O_APPEND else "a", unbuffered=True)
        return _Fd(f)

    def fdopen(self, fd, mode="r", buffering=-1, **k):
        if not isinstance(fd, _Fd) or "r" in mode and "+" not in mode:
            raise Unsupported("os.fdopen(%r, %r)" % (fd, mode))
        fd.f.unbuffered = buffering == 0
        return fd.f

    def close(self, fd):
        if isinstance(fd, _Fd):
            fd.f.close()

    def write(self, fd, data):
        if not isinstance(fd, _Fd):
            raise Unsupported("os.write(%r)" % (fd,))
        return fd.f._emit(data if isinstance(data, ABuf) else ABuf(data))

    def getpid(self):
        return 4242

    def stat(self, p, **k):
        return self._fs.stat(p, follow=k.get("follow_symlinks", True))

    def lstat(self, p, **k):
        return self._fs.stat(p, follow=False)

    def walk(self, top, topdown=True):
        top = _s(top)
        names = self._fs.listdir(top)
        ds = [n for n in names if self._fs.isdir(posixpath.join(top, n))]
        fl = [n for n in names if not self._fs.isdir(posixpath.join(top, n))]
        yield top, ds, fl
        for d in ds:
            yield from self.walk(posixpath.join(top, d))

    def scandir(self, p="."):
        fs = self._fs
        base = _s(p)
        out = []
        for n in fs.listdir(base):
            full = posixpath.join(base, n)
            out.append(types.SimpleNamespace(
                name=n, path=full, is_file=lambda f=full, **k: fs.isfile(f), is_dir=lambda f=full, **k: fs.isdir(f),
                stat=lambda f=full, **k: fs.stat(f, follow=k.get("follow_symlinks", True)),
                is_symlink=lambda f=full: fs.resolve(f, follow=False) in fs.links))

        class It(list):
            def __enter__(s):
                return s

            def __exit__(s, *a):
                return False

            def close(s):
                pass
        return It(out)

    def __getattr__(self, name):
        import os as _real_os
        if not hasattr(_real_os, name):
            raise AttributeError(name)          # not there on this platform either (e.g. O_BINARY): getattr defaults work
        raise Unsupported("os.%s not modelled" % name)


class ShutilModel:
    def __init__(self, fs):
        self._fs = fs
        self.copy = fs.copy
        self.copy2 = fs.copy
        self.copyfile = fs.copyfile
        self.move = fs.move

    def copyfileobj(self, fsrc, fdst, length=0):
        data = fsrc.read()
        fdst.write(data)

    def get_terminal_size(self, fallback=(80, 24)):
        return types.SimpleNamespace(columns=80, lines=24)

    def __getattr__(self, name):
        raise Unsupported("shutil.%s not modelled" % name)
