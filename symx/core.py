"""symx core: path-exploring symbolic executor deciding with z3.

The code under test is ordinary Python (the real torrentfile source, loaded by
symx.loader).  Integers that the harness declares symbolic are `SymInt`
objects over z3 `Int` terms; every Python-level truth test of a symbolic
condition (`SymBool.__bool__`) is a fork point: both sides are checked for
satisfiability under the current path condition, infeasible sides are pruned,
and two-way decisions are explored depth-first by deterministic re-execution
with the recorded decision prefix.  `Engine.check` asks the solver whether the
negated obligation is satisfiable under the path condition.
"""
import time

import z3


class PathAbort(BaseException):
    """Path condition became unsatisfiable (or an assumption excluded it)."""


class Unsupported(BaseException):
    """The model cannot represent what the code just did -> inconclusive."""


class Budget(BaseException):
    """Time / path budget exhausted -> inconclusive."""


class Crash(BaseException):
    """Simulated process death injected by the AFS fault model."""


_ENG = None
BV_BITS = 66
POW2_BITS = 1101
FP_SHAPES = []   # (goal, shape, relations) of float expressions whose exact evaluation decided an obligation (see rat_shape)
FP_LOG = []      # (divisor, comparison, constant) of every `sym_int / const <op> const` evaluated exactly


def eng():
    return _ENG


class Failure:
    __slots__ = ("oblig", "msg", "model", "notes", "known", "trail")

    def __init__(self, oblig, msg, model, notes, known=None, trail=()):
        self.oblig, self.msg, self.model, self.notes = oblig, msg, model, notes
        self.known, self.trail = known, trail

    def as_dict(self):
        return {"obligation": self.oblig, "msg": self.msg, "model": self.model,
                "notes": self.notes, "known": self.known}


class Engine:
    def __init__(self, regions=None, time_budget=None, max_paths=400000,
                 query_timeout_ms=120000, sample_paths=3):
        self.s = z3.Solver()
        self.s.set("timeout", query_timeout_ms)
        self.queries = 0
        self.solver_s = 0.0
        self.paths = 0
        self.aborted = 0
        self.forks = 0
        self.pruned = 0
        self.checks = 0          # obligations asked (per path)
        self.checks_by_oblig = {}
        self.failures = {}       # oblig -> Failure (first outside known regions)
        self.known_hits = {}     # region id -> Failure
        self.unsupported = []    # reasons
        self.witnesses = {}
        self.samples = []
        self.sample_paths = sample_paths
        self.regions = regions or []   # list of (id, oblig_pattern, fn(env)->SymBool)
        self.time_budget = time_budget
        self.max_paths = max_paths
        self.inputs = {}
        self.notes = {}
        self.t0 = None
        self._fresh = 0
        self.xcheck_budget = 0
        self.xcheck_seen = {}
        self.xcheck = {}

    # --- exploration -----------------------------------------------------
    def explore(self, body):
        global _ENG
        _ENG = self
        self.t0 = time.time()
        stack = [()]
        try:
            while stack:
                prefix = stack.pop()
                self.prefix = prefix
                self.pos = 0
                self.trail = []
                self.pending = []
                self.inputs = {}
                self.notes = {}
                self._decls = []
                self._fresh = 0
                self._ranks = []
                self.s.push()
                try:
                    body(self)
                    if len(self.samples) < self.sample_paths:
                        self._sample()
                except PathAbort:
                    self.aborted += 1
                except Unsupported as ex:
                    # an unmodelled construct ends this path only (the run is inconclusive unless another path shows a
                    # violation); exploration goes on, up to a generous cap
                    self.n_unsupported = getattr(self, "n_unsupported", 0) + 1
                    if len(self.unsupported) < 20:
                        self.unsupported.append(str(ex)[:300])
                    if self.n_unsupported >= 3000:
                        raise Budget("too many unsupported paths")
                finally:
                    self.s.pop()
                self.paths += 1
                stack.extend(self.pending)
                if self.paths >= self.max_paths:
                    raise Budget("path budget %d" % self.max_paths)
        except Budget as ex:
            self.unsupported.append("budget: %s" % ex)
        finally:
            _ENG = None
        return self

    def fresh_id(self):
        self._fresh += 1
        return self._fresh

    def _sample(self):
        if self._sat():
            self.samples.append({"inputs": self.model_values(), "notes": _plain(self.notes),
                                 "decisions": len(self.trail)})

    def _tick(self):
        if self.time_budget is not None and time.time() - self.t0 > self.time_budget:
            raise Budget("time budget %ss" % self.time_budget)

    def _sat(self, *extra):
        self._tick()
        t = time.time()
        r = self.s.check(*extra)
        self.solver_s += time.time() - t
        self.queries += 1
        if r == z3.unknown:
            raise Unsupported("solver unknown: %s" % self.s.reason_unknown())
        return r == z3.sat

    def model_values(self):
        m = self.s.model()
        out = {}
        for name, v in self._decls:
            val = m.eval(v, model_completion=True)
            try:
                out[name] = val.as_long()
            except Exception:
                out[name] = str(val)
        return out

    # --- inputs ----------------------------------------------------------
    def int(self, name, lo=None, hi=None):
        v = z3.Int(name)
        self._decls.append((name, v))
        if lo is not None:
            self.s.add(v >= lift(lo))
        if hi is not None:
            self.s.add(v <= lift(hi))
        r = SymInt(v)
        self.inputs[name] = r
        if lo is not None and isinstance(lo, int) and isinstance(hi, int) and lo == hi:
            if not hasattr(self, "pinned"):
                self.pinned = {}
            self.pinned[name] = (v, z3.IntVal(lo))      # a fixed input: renders as ordinary text (sym_str)
        return r

    def choice(self, name, n):
        """A forked choice in range(n), visible in the model as variable `name`."""
        if n <= 1:
            self.inputs[name] = 0
            return 0
        c = self.int(name, 0, n - 1)
        for k in range(n - 1):
            if bool(c == k):
                self.inputs[name] = k
                return k
        self.inputs[name] = n - 1
        return n - 1

    def note(self, key, val):
        self.notes[key] = val

    def assume(self, c):
        c = tobool(c)
        if isinstance(c, bool):
            if not c:
                raise PathAbort()
            return
        self.s.add(c.e)
        if not self._sat():
            raise PathAbort()

    def branch(self, e):
        if self.pos < len(self.prefix):
            d = self.prefix[self.pos]
            self.pos += 1
            self.s.add(e if d else z3.Not(e))
            self.trail.append(d)
            return d
        can_t = self._sat(e)
        if can_t:
            can_f = self._sat(z3.Not(e))
        else:
            can_f = True
            if not self._sat(z3.Not(e)):
                raise PathAbort()
        if can_t and can_f:
            self.forks += 1
            self.pending.append(tuple(self.trail) + (False,))
        else:
            self.pruned += 1
        d = can_t
        self.trail.append(d)
        self.s.add(e if d else z3.Not(e))
        return d

    def feasible(self, c):
        """Is pc and c satisfiable (no fork, nothing added)."""
        c = tobool(c)
        if isinstance(c, bool):
            return c and self._sat()
        return self._sat(c.e)

    def witness(self, name, c=True):
        if self.witnesses.get(name):
            return
        if self.feasible(c):
            self.witnesses[name] = True
        else:
            self.witnesses.setdefault(name, False)

    # --- obligations -----------------------------------------------------
    def _region_exprs(self, oblig):
        import fnmatch
        out = []
        for rid, pat, fn in self.regions:
            if not fnmatch.fnmatch(oblig, pat):
                continue
            try:
                r = tobool(fn(self.inputs, self.notes))
            except (KeyError, IndexError, TypeError, AttributeError):
                continue
            out.append((rid, r))
        return out

    def check(self, prop, oblig, msg=""):
        """Obligation: `prop` must hold on this path for all values.

        On failure the first model per obligation is recorded (outside the
        known-finding regions: a VIOLATION candidate; inside: a known-finding
        witness), then `prop` is assumed and the path continues.
        """
        self.checks += 1
        self.checks_by_oblig[oblig] = self.checks_by_oblig.get(oblig, 0) + 1
        prop = tobool(prop)
        if isinstance(prop, bool):
            if prop:
                return True
            neg = z3.BoolVal(True)
        else:
            neg = z3.Not(prop.e)
        verdict = self._sat(neg)
        if self.xcheck_budget > 0 and not isinstance(prop, bool) and self.xcheck_seen.get(oblig, 0) < 2:
            self.xcheck_seen[oblig] = self.xcheck_seen.get(oblig, 0) + 1
            self.xcheck_budget -= 1
            self._cross_check(neg, verdict, oblig)
        if not verdict:
            return True
        regs = self._region_exprs(oblig)
        outside = [neg]
        for rid, r in regs:
            if isinstance(r, bool):
                if r:
                    outside.append(z3.BoolVal(False))
            else:
                outside.append(z3.Not(r.e))
        if oblig not in self.failures and self._sat(*outside):
            self.failures[oblig] = Failure(oblig, str(msg)[:400], self.model_values(),
                                           _plain(self.notes), None, tuple(self.trail))
        for rid, r in regs:
            if rid in self.known_hits:
                continue
            ok = (r is True) or (not isinstance(r, bool) and self._sat(neg, r.e))
            if r is True:
                self._sat(neg)
            if ok:
                self.known_hits[rid] = Failure(oblig, str(msg)[:400], self.model_values(),
                                               _plain(self.notes), rid, tuple(self.trail))
        # continue under the obligation
        if isinstance(prop, bool):
            raise PathAbort()
        self.s.add(prop.e)
        if not self._sat():
            raise PathAbort()
        return False

    def _cross_check(self, neg, z3_says_sat, oblig):
        """Differential: re-decide this obligation query with cvc5 (thorough tier)."""
        try:
            import cvc5
        except ImportError:
            self.xcheck["unavailable"] = self.xcheck.get("unavailable", 0) + 1
            return
        t = time.time()
        tmp = z3.Solver()
        tmp.add(self.s.assertions())
        tmp.add(neg)
        text = tmp.to_smt2()
        try:
            slv = cvc5.Solver()
            slv.setOption("tlimit-per", "15000")
            slv.setLogic("ALL")
            parser = cvc5.InputParser(slv)
            parser.setStringInput(cvc5.InputLanguage.SMT_LIB_2_6, text, "q")
            sm = parser.getSymbolManager()
            out = ""
            while True:
                cmd = parser.nextCommand()
                if cmd.isNull():
                    break
                out += str(cmd.invoke(slv, sm))
            ans = out.strip().split()[-1] if out.strip() else "unknown"
        except Exception as ex:  # noqa: BLE001
            ans = "error:%s" % type(ex).__name__
        key = "agree" if ans == ("sat" if z3_says_sat else "unsat") else ("disagree" if ans in ("sat", "unsat") else "inconclusive")
        self.xcheck[key] = self.xcheck.get(key, 0) + 1
        self.xcheck["seconds"] = round(self.xcheck.get("seconds", 0) + time.time() - t, 2)
        if key == "disagree":
            self.unsupported.append("solver disagreement on %s: z3 %s, cvc5 %s" % (oblig, "sat" if z3_says_sat else "unsat", ans))

    def fail(self, oblig, msg=""):
        _model_bug_guard()
        return self.check(False, oblig, msg)

    def stats(self):
        return {"paths": self.paths, "aborted": self.aborted, "forks": self.forks, "pruned": self.pruned,
                "queries": self.queries, "solver_s": round(self.solver_s, 3), "checks": self.checks,
                "checks_by_obligation": dict(self.checks_by_oblig), "cross_check_cvc5": dict(self.xcheck)}


_VERIF_ROOT = __import__("os").path.dirname(__import__("os").path.dirname(__import__("os").path.abspath(__file__)))
_BUG_TYPES = (AttributeError, NameError, UnboundLocalError, AssertionError, ImportError, RecursionError, NotImplementedError)


def _model_bug_guard():
    """Engine.fail is usually called from an `except Exception` block of a harness.  If the exception being handled
    was raised by the model's own code (innermost frame in /verif) and is of a kind the model never raises on purpose,
    it is a defect of the machinery, not behaviour of the code under test: Unsupported (inconclusive), not a failure."""
    import sys
    ex = sys.exc_info()[1]
    if ex is None or not isinstance(ex, _BUG_TYPES):
        return
    tb_ = ex.__traceback__
    last = None
    while tb_ is not None:
        last = tb_
        tb_ = tb_.tb_next
    fn = last.tb_frame.f_code.co_filename if last is not None else ""
    if fn.startswith(_VERIF_ROOT + "/symx") or fn.startswith(_VERIF_ROOT + "/harness") or fn.startswith(_VERIF_ROOT + "/refconc"):
        raise Unsupported("error inside the model (%s:%d): %s: %s" % (fn[len(_VERIF_ROOT) + 1:], last.tb_lineno, type(ex).__name__, ex))


def _plain(x):
    if isinstance(x, dict):
        return {str(k): _plain(v) for k, v in x.items()}
    if isinstance(x, (list, tuple)):
        return [_plain(v) for v in x]
    if isinstance(x, (int, str, bool, float)) or x is None:
        return x
    return repr(x)[:200]


def tobool(x):
    if isinstance(x, SymBool):
        return x
    return bool(x)


def tb(x):
    """Truth value of a possibly symbolic condition (forks)."""
    if isinstance(x, bool):
        return x
    return bool(tobool(x))


def lift(x):
    if isinstance(x, SymInt):
        return x.e
    if isinstance(x, bool):
        return z3.IntVal(int(x))
    if isinstance(x, int):
        return z3.IntVal(x)
    raise Unsupported("lift %s" % type(x).__name__)


def is_sym(x):
    return isinstance(x, (SymInt, SymBool, Rat))


class SymBool:
    __slots__ = ("e",)

    def __init__(self, e):
        self.e = e

    def __bool__(self):
        e = z3.simplify(self.e)
        if z3.is_true(e):
            return True
        if z3.is_false(e):
            return False
        if _ENG is None:
            raise Unsupported("symbolic truth test outside exploration")
        return _ENG.branch(e)

    def __and__(self, o):
        o = tobool(o)
        if isinstance(o, bool):
            return self if o else False
        return SymBool(z3.And(self.e, o.e))

    __rand__ = __and__

    def __or__(self, o):
        o = tobool(o)
        if isinstance(o, bool):
            return True if o else self
        return SymBool(z3.Or(self.e, o.e))

    __ror__ = __or__

    def __invert__(self):
        return SymBool(z3.Not(self.e))

    def __eq__(self, o):
        o = tobool(o)
        if isinstance(o, bool):
            return self if o else ~self
        return SymBool(self.e == o.e)

    def __hash__(self):
        raise Unsupported("hash of symbolic bool")

    def __repr__(self):
        return "<symbool %s>" % self.e


def conj(*xs):
    r = True
    for x in xs:
        x = tobool(x)
        if x is False:
            return False
        if x is True:
            continue
        r = x if r is True else (r & x)
    return r


def disj(*xs):
    r = False
    for x in xs:
        x = tobool(x)
        if x is True:
            return True
        if x is False:
            continue
        r = x if r is False else (r | x)
    return r


def neg(x):
    x = tobool(x)
    if isinstance(x, bool):
        return not x
    return ~x


def implies(a, b):
    return disj(neg(a), b)


def ite(c, a, b):
    """Symbolic if-then-else on ints without forking."""
    c = tobool(c)
    if isinstance(c, bool):
        return a if c else b
    return SymInt(z3.If(c.e, lift(a), lift(b)))._n()


class SymInt:
    __slots__ = ("e",)

    def __init__(self, e):
        self.e = e

    def _n(self):
        e = z3.simplify(self.e)
        if z3.is_int_value(e):
            return e.as_long()
        return SymInt(e)

    @staticmethod
    def _mk(e):
        e = z3.simplify(e)
        if z3.is_int_value(e):
            return e.as_long()
        return SymInt(e)

    def _other(self, o):
        if isinstance(o, Rat) or isinstance(o, float):
            return None
        if isinstance(o, (int, SymInt)):
            return lift(o)
        return None

    def __add__(self, o):
        b = self._other(o)
        if b is None:
            return NotImplemented
        return self._mk(self.e + b)

    __radd__ = __add__

    def __sub__(self, o):
        b = self._other(o)
        if b is None:
            return NotImplemented
        return self._mk(self.e - b)

    def __rsub__(self, o):
        b = self._other(o)
        if b is None:
            return NotImplemented
        return self._mk(b - self.e)

    def __mul__(self, o):
        b = self._other(o)
        if b is None:
            return NotImplemented
        return self._mk(self.e * b)

    __rmul__ = __mul__

    def __neg__(self):
        return self._mk(-self.e)

    def __pos__(self):
        return self

    def __abs__(self):
        return self._mk(z3.If(self.e >= 0, self.e, -self.e))

    @staticmethod
    def _fdiv(a, b):
        if tb(SymBool(b == 0)):
            raise ZeroDivisionError("integer division or modulo by zero")
        if z3.is_int_value(b) and b.as_long() > 0:
            return a / b
        if z3.is_int_value(b) and b.as_long() < 0:
            return (-a) / (-b)
        return z3.If(b > 0, a / b, (-a) / (-b))

    def __floordiv__(self, o):
        b = self._other(o)
        if b is None:
            return NotImplemented
        return self._mk(self._fdiv(self.e, b))

    def __rfloordiv__(self, o):
        a = self._other(o)
        if a is None:
            return NotImplemented
        return self._mk(self._fdiv(a, self.e))

    def __mod__(self, o):
        b = self._other(o)
        if b is None:
            return NotImplemented
        return self._mk(self.e - b * self._fdiv(self.e, b))

    def __rmod__(self, o):
        if isinstance(o, str):
            return o % (str(self),)
        a = self._other(o)
        if a is None:
            return NotImplemented
        return self._mk(a - self.e * self._fdiv(a, self.e))

    def __divmod__(self, o):
        return self // o, self % o

    def __truediv__(self, o):
        if isinstance(o, Rat):
            return Rat(self, 1) / o
        if not isinstance(o, (int, SymInt)):
            return NotImplemented
        if tb(o == 0):
            raise ZeroDivisionError("division by zero")
        r = Rat(self, o)
        if isinstance(o, int):
            r.pure = True
        return r

    def __rtruediv__(self, o):
        if not isinstance(o, (int, SymInt)):
            return NotImplemented
        if tb(self == 0):
            raise ZeroDivisionError("division by zero")
        return Rat(o, self)

    def __pow__(self, o):
        if isinstance(o, int) and 0 <= o <= 4:
            r = 1
            for _ in range(o):
                r = r * self
            return r
        return concretize(self, "pow base") ** o

    def __rpow__(self, o):
        return o ** concretize(self, "pow exponent")

    def _bv(self, o, f, kind):
        """Bitwise op on mathematical integers.

        (1) `a & (a-1)` with a >= 1 (the power-of-two idiom) gets a dedicated
            encoding, exact on zero-ness at any width: r == 0 <=> a is a power of
            two, otherwise 1 <= r < a (the precise non-zero value is left open; a
            verdict that depends on it is caught by the replay).
        (2) otherwise both operands are decomposed into BV_BITS two's-complement
            bits (Boolean variables, linear sums); exact for |operand| < 2**(BV_BITS-1),
            side condition checked."""
        if not isinstance(o, (int, SymInt)):
            return NotImplemented
        E = _ENG
        if E is None:
            raise Unsupported("bitwise op outside exploration")
        a, b = self.e, lift(o)
        if kind == "and":
            for p, q in ((a, b), (b, a)):
                if z3.is_true(z3.simplify(q == p - 1)) and not tb(SymBool(p < 1)):
                    if tb(SymBool(p >= 2 ** POW2_BITS)):
                        raise Unsupported("power-of-two idiom beyond 2**%d" % POW2_BITS)
                    k = E.fresh_id()
                    r = z3.Int("band_%d" % k)
                    isp = z3.Or([p == 2 ** i for i in range(POW2_BITS)])
                    E.s.add(z3.If(isp, r == 0, z3.And(r >= 1, r < p)))
                    return SymInt(r)
        lim = 2 ** (BV_BITS - 1)
        for t in (a, b):
            if tb(SymBool(z3.Or(t >= lim, t < -lim))):
                raise Unsupported("bitwise operation beyond %d bits" % BV_BITS)
        k = E.fresh_id()

        def bits(t, tag):
            bs = [z3.Bool("bit_%d_%s_%d" % (k, tag, i)) for i in range(BV_BITS)]
            E.s.add(t + z3.If(t < 0, 2 ** BV_BITS, 0) == z3.Sum([z3.If(x, 2 ** i, 0) for i, x in enumerate(bs)]))
            return bs
        xa, xb = bits(a, "a"), bits(b, "b")
        rb = [f(p, q) for p, q in zip(xa, xb)]
        ur = z3.Sum([z3.If(x, 2 ** i, 0) for i, x in enumerate(rb)])
        return SymInt(ur - z3.If(rb[-1], 2 ** BV_BITS, 0))

    def __and__(self, o):
        return self._bv(o, lambda x, y: z3.And(x, y), "and")

    __rand__ = __and__

    def __or__(self, o):
        return self._bv(o, lambda x, y: z3.Or(x, y), "or")

    __ror__ = __or__

    def __xor__(self, o):
        return self._bv(o, lambda x, y: z3.Xor(x, y), "xor")

    __rxor__ = __xor__

    def __invert__(self):
        return self._mk(-self.e - 1)

    def bit_length(self):
        e = self.e
        a = z3.If(e >= 0, e, -e)
        if tb(SymBool(a >= 2 ** (BV_BITS - 2))):
            raise Unsupported("bit_length beyond %d bits" % BV_BITS)
        return SymInt(z3.Sum([z3.If(a >= 2 ** k, 1, 0) for k in range(BV_BITS - 1)]))

    def bit_count(self):
        raise Unsupported("bit_count of symbolic int")

    def __getattr__(self, name):
        if name.startswith("_"):
            raise AttributeError(name)
        raise Unsupported("int.%s on symbolic int" % name)

    def __lshift__(self, o):
        if isinstance(o, int) and 0 <= o < 4096:
            return self * (2 ** o)
        return concretize(self, "<<") << o

    def __rlshift__(self, o):
        return o << concretize(self, "<<")

    def __rshift__(self, o):
        if isinstance(o, int) and 0 <= o < 4096:
            return self // (2 ** o)
        return concretize(self, ">>") >> o

    def _cmp(self, o, f):
        if isinstance(o, Rat):
            return NotImplemented
        if isinstance(o, float):
            if o != o or o in (float("inf"), float("-inf")) or o != int(o):
                raise Unsupported("comparison with float %r" % o)
            o = int(o)
        if not isinstance(o, (int, SymInt)):
            return NotImplemented
        e = z3.simplify(f(self.e, lift(o)))
        if z3.is_true(e):
            return True
        if z3.is_false(e):
            return False
        return SymBool(e)

    def __lt__(self, o):
        return self._cmp(o, lambda a, b: a < b)

    def __le__(self, o):
        return self._cmp(o, lambda a, b: a <= b)

    def __gt__(self, o):
        return self._cmp(o, lambda a, b: a > b)

    def __ge__(self, o):
        return self._cmp(o, lambda a, b: a >= b)

    def __eq__(self, o):
        r = self._cmp(o, lambda a, b: a == b)
        return False if r is NotImplemented else r

    def __ne__(self, o):
        r = self._cmp(o, lambda a, b: a != b)
        return True if r is NotImplemented else r

    def __bool__(self):
        return tb(self != 0)

    def __hash__(self):
        return hash(concretize_unique(self, "hash"))

    def __index__(self):
        try:
            return concretize_unique(self, "index")
        except Unsupported:
            pass
        # an index into a short sequence: small values are enumerated (one path each), the rest is not modelled
        if tb(conj(self >= -64, self <= 64)):
            return concretize(self, "index", cap=140)
        raise Unsupported("concretisation (index) of non-unique %s outside [-64, 64]" % (self.e,))

    def __int__(self):
        return concretize_unique(self, "int")

    def __float__(self):
        raise Unsupported("float() of symbolic int")

    def __repr__(self):
        return "<sym %s>" % self.e

    def __str__(self):
        return SymIntStr(self)

    def __format__(self, spec):
        return "<sym %s>" % z3.simplify(self.e)


def concretize_unique(x, why):
    """Value of x if it is unique under the path condition, else Unsupported."""
    if isinstance(x, int):
        return x
    E = _ENG
    if E is None:
        raise Unsupported("concretize outside exploration")
    if not E._sat():
        raise PathAbort()
    v = E.s.model().eval(x.e, model_completion=True)
    if E._sat(x.e != v):
        raise Unsupported("concretisation (%s) of non-unique %s" % (why, x.e))
    return v.as_long()


def concretize(x, why, cap=80):
    """Fork over every feasible value of x (small finite domains only)."""
    if isinstance(x, int):
        return x
    E = _ENG
    if E is None:
        raise Unsupported("concretize outside exploration")
    for _ in range(cap):
        if not E._sat():
            raise PathAbort()
        v = E.s.model().eval(x.e, model_completion=True).as_long()
        if tb(x == v):
            return v
    raise Unsupported("concretisation (%s): more than %d values for %s" % (why, cap, x.e))


class SymIntStr(str):
    """str(SymInt): a string that equals another one iff the integers are equal."""

    def __new__(cls, sym):
        s = str.__new__(cls, "<int %s>" % z3.simplify(sym.e).sexpr())
        s.sym = sym
        return s

    def __eq__(self, o):
        if isinstance(o, SymIntStr):
            return self.sym == o.sym
        if isinstance(o, str):
            t = o.strip()
            # only canonical decimal renderings can equal str(int)
            if t == o and (t.isdigit() or (t[:1] == "-" and t[1:].isdigit())) and str(int(t)) == o:
                return self.sym == int(t)
            return False
        return False

    def __ne__(self, o):
        return neg(self.__eq__(o))

    def __hash__(self):
        return 13

    def isnumeric(self):
        return self.sym >= 0

    isdigit = isdecimal = isnumeric


def _leaf(x):
    return ("c", x) if isinstance(x, (int, float)) else ("i", x)


class Rat:
    """Exact rational num/den with (usually linear) integer terms; models Python
    true division where only comparisons and *const follow (percentages).
    `tree` keeps the float expression as the code wrote it (div/mul/add/sub/neg over integer leaves and
    constants) so that the IEEE rounding gap can be closed per expression shape by a QF_FP lemma (rat_shape,
    harness/lemmas.shape_lemma)."""
    __slots__ = ("n", "d", "pure", "tree")

    def __init__(self, n, d, tree=None):
        self.pure = False
        self.tree = tree if tree is not None else ("div", _leaf(n), _leaf(d))
        # normalise sign of d to positive
        if isinstance(d, int):
            if d == 0:
                raise ZeroDivisionError("division by zero")
            if d < 0:
                n, d = -n, -d
        else:
            if tb(d == 0):
                raise ZeroDivisionError("division by zero")
            if tb(d < 0):
                n, d = -n, -d
        self.n, self.d = n, d

    @staticmethod
    def _c(o):
        if isinstance(o, Rat):
            return o
        if isinstance(o, (int, SymInt)):
            return Rat(o, 1, _leaf(o))
        if isinstance(o, float) and o == int(o):
            return Rat(int(o), 1, _leaf(o))
        raise Unsupported("rational op with %r" % (o,))

    def __mul__(self, o):
        o = self._c(o)
        return Rat(self.n * o.n, self.d * o.d, ("mul", self.tree, o.tree))

    __rmul__ = __mul__

    def __truediv__(self, o):
        o = self._c(o)
        return Rat(self.n * o.d, self.d * o.n, ("div", self.tree, o.tree))

    def __rtruediv__(self, o):
        o = self._c(o)
        return Rat(o.n * self.d, o.d * self.n, ("div", o.tree, self.tree))

    def __add__(self, o):
        o = self._c(o)
        return Rat(self.n * o.d + o.n * self.d, self.d * o.d, ("add", self.tree, o.tree))

    __radd__ = __add__

    def __sub__(self, o):
        o = self._c(o)
        return Rat(self.n * o.d - o.n * self.d, self.d * o.d, ("sub", self.tree, o.tree))

    def __neg__(self):
        return Rat(-self.n, self.d, ("neg", self.tree))

    def _cmp(self, o, op, name="?"):
        if self.pure and isinstance(o, (int, float)) and isinstance(self.d, int):
            FP_LOG.append((self.d, name, o))
        o = self._c(o)
        return op(self.n * o.d, o.n * self.d)

    def __lt__(self, o):
        return self._cmp(o, lambda a, b: a < b, "lt")

    def __le__(self, o):
        return self._cmp(o, lambda a, b: a <= b, "le")

    def __gt__(self, o):
        return self._cmp(o, lambda a, b: a > b, "gt")

    def __ge__(self, o):
        return self._cmp(o, lambda a, b: a >= b, "ge")

    def __eq__(self, o):
        if not isinstance(o, (Rat, int, SymInt, float)):
            return False
        return self._cmp(o, lambda a, b: a == b, "eq")

    def __ne__(self, o):
        return neg(self.__eq__(o))

    def __hash__(self):
        raise Unsupported("hash of symbolic rational")

    def floor_toward_zero(self):
        n, d = self.n, self.d
        if isinstance(n, int) and isinstance(d, int):
            q = abs(n) // d
            return q if n >= 0 else -q
        ne, de = lift(n), lift(d)
        return SymInt(z3.If(ne >= 0, ne / de, -((-ne) / de)))

    def __bool__(self):
        return tb(self.n != 0)

    def __format__(self, spec):
        return "<rat>"

    def __str__(self):
        return "<rat>"

    def __repr__(self):
        return "<rat %r/%r>" % (self.n, self.d)


def rat_shape(tree):
    """(shape, leaves): the expression with its integer leaves numbered in order of first appearance (syntactically
    equal terms share a number) and the leaf terms themselves."""
    leaves = []

    def rec(t):
        k = t[0]
        if k == "c":
            return ("c", t[1])
        if k == "i":
            for j, l in enumerate(leaves):
                if l is t[1] or z3.eq(lift(l), lift(t[1])):
                    return ("i", j)
            leaves.append(t[1])
            return ("i", len(leaves) - 1)
        return (k,) + tuple(rec(x) for x in t[1:])
    return rec(tree), leaves


def _relation(E, a, b):
    if not E.feasible(a != b):
        return "eq"
    if not E.feasible(a >= b):
        return "lt"
    if not E.feasible(a > b):
        return "le"
    if not E.feasible(a <= b):
        return "gt"
    if not E.feasible(a < b):
        return "ge"
    return None


def leaf_relations(E, leaves, consts=()):
    """Strongest order relation the path condition implies between each pair of leaves, and between each leaf and
    each integer constant of the expression: ((i, j | ('c', value), rel), ...)."""
    rels = []
    for i in range(len(leaves)):
        for j in range(i + 1, len(leaves)):
            r = _relation(E, leaves[i], leaves[j])
            if r:
                rels.append((i, j, r))
        for c in consts:
            r = _relation(E, leaves[i], c)
            if r:
                rels.append((i, ("c", c), r))
    return tuple(rels)


def record_fp_shape(E, goal, value):
    """Remember that `value` (a Rat) was judged exactly against `goal`; the harness closes the rounding gap per shape."""
    if not isinstance(value, Rat):
        return
    shape, leaves = rat_shape(value.tree)
    pos = tuple(j for j, l in enumerate(leaves) if not E.feasible(l <= 0))
    consts = set()

    def scan(t):
        if t[0] == "c":
            if isinstance(t[1], int) and t[1] > 100:
                consts.add(t[1])
        elif t[0] != "i":
            for x in t[1:]:
                scan(x)
    scan(shape)
    FP_SHAPES.append((goal, shape, leaf_relations(E, leaves, sorted(consts)), pos))


# ---- builtins replacements ---------------------------------------------------

def sym_int(x=0, base=None):
    if isinstance(x, Rat):
        return x.floor_toward_zero()
    if isinstance(x, SymInt):
        return x
    if isinstance(x, SymIntStr):
        return x.sym
    if hasattr(x, "__symint__"):
        return x.__symint__()
    if base is not None:
        return int(x, base)
    return int(x)


def sym_str(x="", *a):
    if isinstance(x, SymInt):
        # a value fixed by pinned inputs renders as the ordinary text; decided syntactically (substitute, simplify),
        # never by a solver query - str() is called far too often for that
        pins = getattr(_ENG, "pinned", None) if _ENG is not None else None
        if pins:
            v = z3.simplify(z3.substitute(x.e, *pins.values()))
            if z3.is_int_value(v):
                return str(v.as_long())
        return SymIntStr(x)
    if (hasattr(x, "__symlen__") and hasattr(x, "chars")) or getattr(x, "_ostr", False):
        return x
    if isinstance(x, Rat):
        return "<rat>"
    from .abuf import ABuf as _ABuf
    if isinstance(x, _ABuf) and not a:
        from .abuf import ReprKey
        c = x.canon()
        if len(c) == 1 and c[0][0] in "DG":
            return ReprKey(x)
        if all(sg[0] == "L" for sg in c):
            return str(b"".join(bytes(sg[1]) for sg in c))
        raise Unsupported("str() of an abstract buffer")
    if a:
        return str(x, *a)
    return str(x)


def sym_float(x=0.0):
    if hasattr(x, "__symfloat__"):
        return x.__symfloat__()
    if isinstance(x, (SymInt, Rat)):
        raise Unsupported("float() of symbolic value")
    return float(x)


def sym_range(*a):
    if all(isinstance(x, int) for x in a):
        return range(*a)
    if len(a) == 1:
        lo, hi, st = 0, a[0], 1
    elif len(a) == 2:
        lo, hi, st = a[0], a[1], 1
    else:
        lo, hi, st = a
    if not isinstance(st, int) or st <= 0:
        raise Unsupported("symbolic range step")

    def gen():
        i = lo
        while tb(i < hi):
            yield i
            i = i + st
    return gen()


def sym_len(x):
    if isinstance(x, (list, tuple, dict, set, str, bytes, bytearray, range, frozenset)) and type(x).__len__ is not None \
            and not hasattr(x, "__symlen__"):
        return len(x)
    if hasattr(x, "__symlen__"):
        return x.__symlen__()
    r = type(x).__len__(x)
    return r


def sym_sum(it, start=0):
    t = start
    for x in it:
        t = t + x
    return t


def sym_abs(x):
    return abs(x)


def sym_min(*a, **k):
    return min(*a, **k)


def shim(real, conv, also=()):
    """A stand-in for a builtin type: isinstance() sees the symbolic classes too."""
    class M(type):
        def __instancecheck__(cls, x):
            return isinstance(x, (real,) + tuple(also))

        def __subclasscheck__(cls, c):
            return issubclass(c, (real,) + tuple(also))

        def __call__(cls, *a, **k):
            return conv(*a, **k)

        def __getattr__(cls, name):
            # unbound methods / class attributes of the real type (str.lower, int.from_bytes, ...)
            return getattr(real, name)

        def __eq__(cls, o):
            return o is cls or o is real

        def __hash__(cls):
            return hash(real)

    return M(real.__name__, (), {"__doc__": "symx shim for %s" % real.__name__})


class SymDict(dict):
    """dict whose keys may be symbolic integers (used for every dict display in
    the loaded source).  A look-up with a symbolic key compares it with every
    integer key already present (each comparison forks through the solver);
    concrete keys behave as in a plain dict.  Symbolic keys live in a side list
    (insertion order among them is kept; relative order to concrete keys is not)."""

    def __init__(self, *a, **k):
        super().__init__(*a, **k)
        self._sym = []

    @staticmethod
    def _symbolic(key):
        if isinstance(key, SymInt):
            try:
                return None, concretize_unique(key, "dict key")
            except Unsupported:
                return key, None
        if isinstance(key, tuple) and any(isinstance(x, SymInt) for x in key):
            # a tuple with symbolic components (e.g. (path, size, mtime)): pin what is unique, keep the rest symbolic
            parts = []
            symbolic = False
            for x in key:
                if isinstance(x, SymInt):
                    try:
                        x = concretize_unique(x, "dict key")
                    except Unsupported:
                        symbolic = True
                parts.append(x)
            return (tuple(parts), None) if symbolic else (None, tuple(parts))
        return None, key

    @staticmethod
    def _keq(a, b):
        if isinstance(a, tuple) or isinstance(b, tuple):
            if not (isinstance(a, tuple) and isinstance(b, tuple)) or len(a) != len(b):
                return False
            return all(SymDict._keq(x, y) for x, y in zip(a, b))
        if isinstance(a, SymInt) or isinstance(b, SymInt):
            if not isinstance(a, (int, SymInt)) or not isinstance(b, (int, SymInt)) or isinstance(a, bool) or isinstance(b, bool):
                return False
            return tb(a == b)
        return a == b

    def _match(self, key):
        """('sym', index) / ('plain', key) / None for the entry equal to key."""
        skey, ckey = self._symbolic(key)
        if skey is None:
            if (isinstance(ckey, int) and not isinstance(ckey, bool)) or isinstance(ckey, tuple):
                for i, (k, _) in enumerate(self._sym):
                    if self._keq(k, ckey):
                        return ("sym", i)
            try:
                return ("plain", ckey) if dict.__contains__(self, ckey) else None
            except TypeError:
                raise
        for i, (k, _) in enumerate(self._sym):
            if k is skey or self._keq(k, skey):
                return ("sym", i)
        for k in list(dict.keys(self)):
            if ((isinstance(k, int) and not isinstance(k, bool)) or isinstance(k, tuple)) and self._keq(skey, k):
                return ("plain", k)
        return None

    def __getitem__(self, key):
        m = self._match(key)
        if m is None:
            raise KeyError(key)
        return self._sym[m[1]][1] if m[0] == "sym" else dict.__getitem__(self, m[1])

    def __setitem__(self, key, val):
        m = self._match(key)
        if m is not None:
            if m[0] == "sym":
                self._sym[m[1]] = (self._sym[m[1]][0], val)
            else:
                dict.__setitem__(self, m[1], val)
            return
        skey, ckey = self._symbolic(key)
        if skey is None:
            dict.__setitem__(self, ckey, val)
        else:
            self._sym.append((skey, val))

    def __delitem__(self, key):
        m = self._match(key)
        if m is None:
            raise KeyError(key)
        if m[0] == "sym":
            del self._sym[m[1]]
        else:
            dict.__delitem__(self, m[1])

    def __contains__(self, key):
        return self._match(key) is not None

    def get(self, key, default=None):
        m = self._match(key)
        if m is None:
            return default
        return self._sym[m[1]][1] if m[0] == "sym" else dict.__getitem__(self, m[1])

    def setdefault(self, key, default=None):
        m = self._match(key)
        if m is None:
            self[key] = default
            return default
        return self._sym[m[1]][1] if m[0] == "sym" else dict.__getitem__(self, m[1])

    _MISSING = object()

    def pop(self, key, default=_MISSING):
        m = self._match(key)
        if m is None:
            if default is SymDict._MISSING:
                raise KeyError(key)
            return default
        if m[0] == "sym":
            return self._sym.pop(m[1])[1]
        return dict.pop(self, m[1])

    def __len__(self):
        return dict.__len__(self) + len(self._sym)

    def __bool__(self):
        return len(self) > 0

    def __iter__(self):
        yield from dict.__iter__(self)
        for k, _ in self._sym:
            yield k

    def keys(self):
        return list(self.__iter__()) if self._sym else dict.keys(self)

    def values(self):
        return (list(dict.values(self)) + [v for _, v in self._sym]) if self._sym else dict.values(self)

    def items(self):
        return (list(dict.items(self)) + list(self._sym)) if self._sym else dict.items(self)

    def update(self, *a, **k):
        for kk, v in dict(*a, **k).items():
            self[kk] = v

    def clear(self):
        dict.clear(self)
        self._sym = []

    def copy(self):
        c = SymDict(dict.items(self))
        c._sym = list(self._sym)
        return c

    def __eq__(self, o):
        if self._sym or getattr(o, "_sym", None):
            raise Unsupported("equality of dictionaries with symbolic keys")
        return dict.__eq__(self, o)

    def __ne__(self, o):
        return not self.__eq__(o)

    __hash__ = None
