"""Reference encoders (BEP 3 / BEP 52) over abstract buffers.

Independent of torrentfile: written from the specifications.  They run under
the engine (sizes may be symbolic; comparisons fork), so on every explored path
they yield the expected digests as `ABuf`/`Digest` values.
"""
from .core import tb
from .abuf import ABuf, sha1, sha256

BLOCK = 16384


def np2(n):
    p = 1
    while p < n:
        p *= 2
    return p


def cut(stream, piece_len):
    """Successive piece_len slices of an abstract stream (last may be short)."""
    total = stream.size()
    out = []
    pos = 0
    while tb(pos < total):
        nxt = pos + piece_len
        end = nxt if tb(nxt <= total) else total
        out.append(stream[pos:end])
        pos = end
    return out


def v1_pieces(stream, piece_len):
    """BEP 3: SHA-1 of each successive piece_len slice, concatenated."""
    r = ABuf.of([])
    for sl in cut(stream, piece_len):
        r.extend(sha1(sl).digest())
    return r


def v1_piece_list(stream, piece_len):
    return [(sha1(sl).digest(), sl.size()) for sl in cut(stream, piece_len)]


ZERO_HASH = ABuf(32)


def _reduce(nodes):
    assert len(nodes) & (len(nodes) - 1) == 0 and nodes
    while len(nodes) > 1:
        nodes = [sha256(nodes[i] + nodes[i + 1]).digest() for i in range(0, len(nodes), 2)]
    return nodes[0]


def leaves(content):
    return [sha256(b).digest() for b in cut(content, BLOCK)]


def v2_layerwise(content, piece_len):
    """(root, piece_layer or None, npieces): per-piece subtree roots padded with
    zero hashes to P/B leaves, then padded with the zero-subtree root."""
    lv = leaves(content)
    n = len(lv)
    if n == 0:
        return None, None, 0
    bpp = piece_len // BLOCK
    if n <= bpp:
        return _reduce(lv + [ZERO_HASH] * (np2(n) - n)), None, 1
    pieces = []
    for i in range(0, n, bpp):
        grp = lv[i:i + bpp]
        pieces.append(_reduce(grp + [ZERO_HASH] * (bpp - len(grp))))
    pad = _reduce([ZERO_HASH] * bpp)
    root = _reduce(pieces + [pad] * (np2(len(pieces)) - len(pieces)))
    layer = ABuf.of([])
    for p in pieces:
        layer.extend(p)
    return root, layer, len(pieces)


def v2_wholetree(content, piece_len):
    """Same, by building the whole balanced tree and reading off the layer in
    which one node covers one piece."""
    lv = leaves(content)
    n = len(lv)
    if n == 0:
        return None, None, 0
    bpp = piece_len // BLOCK
    if n <= bpp:
        width = np2(n)
    else:
        width = bpp * np2(-(-n // bpp))
    level = lv + [ZERO_HASH] * (width - n)
    span = 1
    layer = None
    npieces = 1
    while True:
        if n > bpp and span == bpp:
            npieces = -(-n // bpp)
            layer = ABuf.of([])
            for p in level[:npieces]:
                layer.extend(p)
        if len(level) == 1:
            break
        level = [sha256(level[i] + level[i + 1]).digest() for i in range(0, len(level), 2)]
        span *= 2
    return level[0], layer, npieces


def v2_piece_hashes(content, piece_len):
    """Per-piece verification hashes of one file: for a file of at most one
    piece the root, otherwise the piece-layer entries; with the payload bytes
    each covers."""
    root, layer, np_ = v2_layerwise(content, piece_len)
    if root is None:
        return []
    size = content.size()
    if layer is None:
        return [(root, size)]
    ds = [ABuf.of([s]) for s in layer.segs]
    out = []
    left = size
    for d in ds:
        take = piece_len if tb(left >= piece_len) else left
        out.append((d, take))
        left = left - take
    return out
