"""Abstract byte strings and the injective hash model.

An `ABuf` is a mutable sequence of segments (kind, src, off, n):

  F  n bytes of abstract file content `src` starting at offset `off`
  Z  n zero bytes
  G  n bytes guaranteed to differ from whatever else could be at that place
     (`src` is a tag; used for flipped bytes and for decoy contents)
  L  literal bytes `src` (concrete)
  D  a digest (`src` is a `Digest`), n = 20 or 32, atomic
  T  an opaque token (`src` has __eq__), e.g. the bencoding of an object

Offsets and lengths may be symbolic.  Equality is decided on a canonical form
(empty segments dropped, adjacent segments merged) and forks through the
solver whenever symbolic lengths have to be compared.  Generic-content
assumption (A-generic): distinct descriptions denote distinct bytes.
"""
from .core import SymInt, Unsupported, tb, SymIntStr


def _isnum(x):
    return isinstance(x, (int, SymInt)) and not isinstance(x, bool)


class ABuf:
    __slots__ = ("segs",)

    def __init__(self, x=0, *rest):
        if isinstance(x, ABuf):
            self.segs = list(x.segs)
        elif isinstance(x, (bytes, bytearray)):
            self.segs = [("L", bytes(x), 0, len(x))] if len(x) else []
        elif _isnum(x):
            if isinstance(x, int):
                if x < 0:
                    raise ValueError("negative count")
                self.segs = [("Z", None, 0, x)] if x else []
            else:
                if tb(x < 0):
                    raise ValueError("negative count")
                self.segs = [("Z", None, 0, x)]
        elif isinstance(x, str):
            if not rest:
                raise TypeError("string argument without an encoding")
            if isinstance(x, SymIntStr):
                raise Unsupported("encode of symbolic int string")
            b = x.encode(*rest)
            self.segs = [("L", b, 0, len(b))] if b else []
        elif isinstance(x, (list, tuple)):
            b = bytes(x)
            self.segs = [("L", b, 0, len(b))] if b else []
        elif isinstance(x, AView):
            self.segs = x.tobuf().segs
        else:
            raise Unsupported("ABuf(%s)" % type(x).__name__)

    @classmethod
    def of(cls, segs):
        b = cls.__new__(cls)
        b.segs = list(segs)
        return b

    @classmethod
    def file(cls, fid, size, off=0):
        return cls.of([("F", fid, off, size)])

    def size(self):
        t = 0
        for s in self.segs:
            if s[0] == "T" and s[3] is None:
                raise Unsupported("length of opaque token")
            t = t + s[3]
        return t

    __symlen__ = size

    def __len__(self):
        r = self.size()
        if isinstance(r, int):
            return r
        return r.__index__()

    def extend(self, o):
        if isinstance(o, ABuf):
            self.segs.extend(o.segs)
        else:
            self.segs.extend(ABuf(o).segs)

    def __iadd__(self, o):
        self.extend(o)
        return self

    def __add__(self, o):
        r = ABuf(self)
        r.extend(o)
        return r

    def __radd__(self, o):
        r = ABuf(o)
        r.extend(self)
        return r

    def join(self, items):
        sep = self.segs
        r = ABuf.of([])
        first = True
        for i in items:
            if not first and sep:
                r.segs.extend(sep)
            first = False
            r.extend(i)
        return r

    def copy(self):
        return ABuf(self)

    def clear(self):
        self.segs = []

    def startswith(self, o):
        o = o if isinstance(o, ABuf) else ABuf(o)
        n = o.size()
        return self[:n] == o

    def endswith(self, o):
        raise Unsupported("ABuf.endswith")

    def decode(self, *a):
        if all(s[0] == "L" for s in self.segs):
            return b"".join(s[1] for s in self.segs).decode(*a)
        raise Unsupported("decode of abstract bytes")

    def __iter__(self):
        raise Unsupported("byte iteration over abstract bytes")

    def __getitem__(self, sl):
        if not isinstance(sl, slice):
            raise Unsupported("ABuf byte index")
        if sl.step is not None:
            raise Unsupported("ABuf slice step")
        # fast paths
        if sl.start is None and sl.stop is None:
            return ABuf(self)
        total = None
        a = 0 if sl.start is None else sl.start
        b = sl.stop
        if not _isnum(a) or not (b is None or _isnum(b)):
            raise TypeError("slice indices must be integers")
        if tb(a < 0):
            total = self.size()
            a = total + a
            if tb(a < 0):
                a = 0
        if b is not None and tb(b < 0):
            total = self.size() if total is None else total
            b = total + b
            if tb(b < 0):
                b = 0
        out = []
        pos = 0
        for (k, src, off, n) in self.segs:
            if k == "T" and n is None:
                raise Unsupported("slice through opaque token")
            end = pos + n
            if b is not None and tb(b <= pos):
                break
            # overlap [max(a,pos), min(b,end))
            lo_pos = not tb(a > pos)
            hi_end = b is None or tb(b >= end)
            lo = pos if lo_pos else a
            hi = end if hi_end else b
            if tb(lo < hi):
                if lo_pos and hi_end:
                    out.append((k, src, off, n))
                elif k == "D":
                    raise Unsupported("partial slice of a digest")
                elif k == "T":
                    out.append(("T", TokPart(src, lo - pos, hi - pos), 0, hi - lo))
                elif k == "L":
                    l_, h_ = lo - pos, hi - pos
                    if not (isinstance(l_, int) and isinstance(h_, int)):
                        from .core import concretize_unique
                        l_, h_ = concretize_unique(l_, "literal slice"), concretize_unique(h_, "literal slice")
                    out.append(("L", src[l_:h_], 0, h_ - l_))
                elif k == "G":
                    out.append(("G", (src, "part"), off + (lo - pos), hi - lo))
                else:
                    out.append((k, src, off + (lo - pos), hi - lo))
            pos = end
        return ABuf.of(out)

    def __setitem__(self, sl, val):
        raise Unsupported("ABuf slice assignment")

    def canon(self):
        out = []
        for (k, src, off, n) in self.segs:
            if (k != "T" or n is not None) and tb(n == 0):
                continue
            if k == "L":
                if src.count(0) == len(src):
                    k, src, off = "Z", None, 0
            if out:
                pk, ps, po, pn = out[-1]
                if pk == k == "Z":
                    out[-1] = ("Z", None, 0, pn + n)
                    continue
                if pk == k == "L":
                    out[-1] = ("L", ps + src, 0, pn + n)
                    continue
                if pk == k == "F" and ps == src and tb(po + pn == off):
                    out[-1] = ("F", src, po, pn + n)
                    continue
            out.append((k, src, off, n))
        return out

    def __eq__(self, o):
        if self is o:
            return True
        if not isinstance(o, ABuf):
            if isinstance(o, (bytes, bytearray)):
                o = ABuf(o)
            else:
                return False
        return canon_eq(self.canon(), o.canon())

    def __ne__(self, o):
        return not self.__eq__(o)

    def __hash__(self):
        return 7

    def __bool__(self):
        for s in self.segs:
            if (s[0] == "T" and s[3] is None) or tb(s[3] != 0):
                return True
        return False

    def hex(self):
        return "<abuf>"

    def __getattr__(self, name):
        # a bytes / bytearray method the abstraction does not have: inconclusive, never "the code raised AttributeError"
        if name.startswith("_"):
            raise AttributeError(name)
        raise Unsupported("bytes.%s on an abstract buffer is not modelled" % name)

    # --- byte order of opaque values (digests, tokens): a fresh integer rank per
    # distinct description, unconstrained otherwise - "some contents make a > b"
    # is satisfiable exactly when nothing sorted them.
    def _rank(self):
        c = self.canon()
        if len(c) != 1 or c[0][0] not in "DGL":
            raise Unsupported("byte-order comparison of a composite abstract buffer")
        if c[0][0] == "L":
            return None
        return rank_of(c[0])

    def _order(self, o, op):
        if not isinstance(o, ABuf):
            if isinstance(o, (bytes, bytearray)):
                o = ABuf(o)
            else:
                return NotImplemented
        ra, rb = self._rank(), o._rank()
        if ra is None and rb is None:
            return op(self.canon()[0][1], o.canon()[0][1])
        if ra is None or rb is None:
            raise Unsupported("byte-order comparison of literal and abstract bytes")
        if self == o:
            return op(0, 0)
        return op(ra, rb)

    def __lt__(self, o):
        return self._order(o, lambda a, b: a < b)

    def __le__(self, o):
        return self._order(o, lambda a, b: a <= b)

    def __gt__(self, o):
        return self._order(o, lambda a, b: a > b)

    def __ge__(self, o):
        return self._order(o, lambda a, b: a >= b)

    def __repr__(self):
        return "ABuf(%r)" % (self.segs,)

    def digests(self):
        """The D segments, if the buffer consists only of digests (else None)."""
        c = [s for s in self.segs if s[0] == "T" or tb(s[3] != 0)]
        if all(s[0] == "D" for s in c):
            return [s[1] for s in c]
        return None


class TokPart:
    """A strict part [lo, hi) of an opaque token's bytes: never equal to a whole token."""

    def __init__(self, tok, lo, hi):
        self.tok, self.lo, self.hi = tok, lo, hi

    def __eq__(self, o):
        return self is o

    def __hash__(self):
        return 29

    def __repr__(self):
        return "TokPart(%r)" % (self.tok,)


class AView:
    """memoryview over an abstract buffer: a live window [start, stop) into `base`."""

    def __init__(self, base, start=0, stop=None):
        if isinstance(base, AView):
            start, stop = base._abs(start, stop)
            base = base.base
        if not isinstance(base, ABuf):
            raise Unsupported("memoryview(%s)" % type(base).__name__)
        self.base, self.start, self.stop = base, start, stop

    def _abs(self, a, b):
        """Absolute window for the sub-slice [a, b) of this view."""
        n = self.size()
        a = 0 if a is None else a
        b = n if b is None else b
        if tb(a < 0):
            a = n + a
        if tb(b < 0):
            b = n + b
        if tb(a < 0):
            a = 0
        if tb(b > n):
            b = n
        if tb(a > b):
            a = b
        return self.start + a, self.start + b

    def tobuf(self):
        return self.base[self.start:self.stop]

    tobytes = tobuf

    def toreadonly(self):
        return AView(self.base, self.start, self.stop)

    def release(self):
        pass

    def size(self):
        total = self.base.size()
        stop = total if self.stop is None or tb(self.stop > total) else self.stop
        return stop - self.start if tb(stop > self.start) else 0

    __symlen__ = size
    nbytes = property(size)

    def __len__(self):
        r = self.size()
        return r if isinstance(r, int) else r.__index__()

    def __getitem__(self, sl):
        if not isinstance(sl, slice) or sl.step is not None:
            raise Unsupported("memoryview index")
        a, b = self._abs(sl.start, sl.stop)
        return AView(self.base, a, b)

    def write_prefix(self, data):
        """Replace the first len(data) bytes of the window (readinto)."""
        n = data.size()
        head = self.base[:self.start]
        tail = self.base[self.start + n:]
        self.base.segs = head.segs + data.segs + tail.segs

    def __eq__(self, o):
        return self.tobuf() == (o.tobuf() if isinstance(o, AView) else o)

    def __hash__(self):
        return 23

    def release(self):
        pass

    def __enter__(self):
        return self

    def __exit__(self, *a):
        pass

    def __bool__(self):
        return tb(self.size() != 0)


def canon_eq(a, b):
    if len(a) != len(b):
        return False
    for (k1, s1, o1, n1), (k2, s2, o2, n2) in zip(a, b):
        if k1 != k2:
            return False
        if k1 == "R":            # rank family of the text of a value: identified by the value's own segment
            if not canon_eq([s1], [s2]):
                return False
            continue
        if k1 == "D":
            if not (s1 == s2):
                return False
            continue
        if k1 == "T":
            if not (s1 == s2):
                return False
            continue
        if k1 == "L":
            if s1 != s2:
                return False
            continue
        if k1 in "FG" and s1 != s2:
            return False
        if not tb(n1 == n2):
            return False
        if k1 in "FG" and not tb(o1 == o2):
            return False
    return True


class Digest:
    """Injective hash model: the digest *is* (alg, canonical description of the
    input); two digests are equal iff algorithm and descriptions are equal."""
    __slots__ = ("alg", "canon", "_h")

    def __init__(self, alg, canon):
        self.alg, self.canon = alg, canon

    def __eq__(self, o):
        if self is o:
            return True
        if not isinstance(o, Digest) or o.alg != self.alg:
            return False
        return canon_eq(self.canon, o.canon)

    def __ne__(self, o):
        return not self.__eq__(o)

    def __hash__(self):
        return 11

    def __repr__(self):
        return "%s%r" % (self.alg, self.canon)


HEX = {}    # placeholder string -> Digest (per process; reset by loader per path)


def mk_hash(alg, n):
    class H:
        digest_size = n
        name = alg

        def __init__(self, data=None, **kw):
            self.buf = ABuf.of([])
            if data is not None:
                self.update(data)

        def update(self, d):
            if not isinstance(d, ABuf):
                d = ABuf(d)
            self.buf.extend(d)

        def copy(self):
            h = H()
            h.buf = ABuf(self.buf)
            return h

        def _d(self):
            return Digest(alg, self.buf.canon())

        def digest(self):
            return ABuf.of([("D", self._d(), 0, n)])

        def hexdigest(self):
            d = self._d()
            for k, v in HEX.items():
                if v == d:
                    return k
            k = "⟦%s:%d⟧" % (alg, len(HEX))
            HEX[k] = d
            return k
    H.__name__ = alg
    return H


sha1 = mk_hash("sha1", 20)
sha256 = mk_hash("sha256", 32)


def concretize_buf(buf, files):
    """Evaluate an abstract buffer against real bytes (model validation).

    files: fid -> bytes.  G segments cannot be evaluated."""
    import hashlib
    out = bytearray()
    segs = buf.segs if isinstance(buf, ABuf) else buf
    for (k, src, off, n) in segs:
        if k == "F":
            out += files[src][off:off + n]
        elif k == "Z":
            out += bytes(n)
        elif k == "L":
            out += src
        elif k == "D":
            h = hashlib.new(src.alg)
            h.update(concretize_buf(src.canon, files))
            out += h.digest()
        else:
            raise ValueError("cannot concretise segment kind %s" % k)
    return bytes(out)


class ReprKey:
    """str()/repr() of bytes the model does not know: an opaque text whose collation order is a second family of
    ranks, unrelated to the byte order of the same values (b'0' < b'\\x10' as text, > as bytes)."""

    def __init__(self, buf):
        c = buf.canon()
        if len(c) != 1 or c[0][0] not in "DG":
            raise Unsupported("str() of a composite abstract buffer")
        self.seg = c[0]

    def _rank(self):
        return rank_of(("R", tuple(self.seg), 0, 0))

    def _cmp(self, o, op):
        if not isinstance(o, ReprKey):
            raise Unsupported("comparison of the text of unknown bytes with %r" % (o,))
        if canon_eq([self.seg], [o.seg]):
            return op(0, 0)
        return op(self._rank(), o._rank())

    def __lt__(self, o):
        return self._cmp(o, lambda a, b: a < b)

    def __le__(self, o):
        return self._cmp(o, lambda a, b: a <= b)

    def __gt__(self, o):
        return self._cmp(o, lambda a, b: a > b)

    def __ge__(self, o):
        return self._cmp(o, lambda a, b: a >= b)

    def __eq__(self, o):
        return isinstance(o, ReprKey) and canon_eq([self.seg], [o.seg])

    def __hash__(self):
        return 31

    def __str__(self):
        return "<text of bytes>"

    __repr__ = __str__

    def __format__(self, spec):
        return "<text of bytes>"


def rank_of(seg):
    from .core import eng
    import z3
    E = eng()
    ranks = E._ranks
    for s0, r in ranks:
        if canon_eq([s0], [seg]):
            return r
    r = SymInt(z3.Int("rank_%d" % len(ranks)))
    for s0, r0 in ranks:
        E.s.add(r.e != r0.e)
    ranks.append((seg, r))
    E._decls.append(("rank_%d" % (len(ranks) - 1), r.e))
    return r
