"""Symbolic strings for numeric-argument kernels (C12): a string of fixed
length whose characters are symbolic *character classes* with digit values.

The classes are extracted at run time from the interpreter's own unicodedata,
so `isnumeric`/`isdigit`/`isdecimal`/`int()` follow this Python's tables:

  A  ASCII decimal digit          B  non-ASCII decimal digit (int() accepts it)
  C1 isdigit but not isdecimal    C2 isnumeric but not isdigit ('½')
  W  whitespace                   PLUS / MINUS / US ('_')      O  anything else
"""
import sys
import unicodedata

import z3

from .core import SymInt, SymBool, Unsupported, tb, eng, conj, disj

A, B, C1, C2, W, PLUS, MINUS, US, O, DOT = range(10)
NAMES = ["ascii-digit", "unicode-decimal", "digit-not-decimal", "numeric-not-digit", "whitespace", "plus", "minus",
         "underscore", "other", "full-stop"]


def classify(ch):
    if "0" <= ch <= "9":
        return A
    if ch.isdecimal():
        return B
    if ch.isdigit():
        return C1
    if ch.isnumeric():
        return C2
    if ch.isspace():
        return W
    return {"+": PLUS, "-": MINUS, "_": US, ".": DOT}.get(ch, O)


_TABLE = None


def table():
    """Per class: population count and a representative (B: one per digit value)."""
    global _TABLE
    if _TABLE is None:
        counts = [0] * 10
        rep = {}
        bdig = {}
        for cp in range(sys.maxunicode + 1):
            if 0xD800 <= cp <= 0xDFFF:
                continue
            ch = chr(cp)
            k = classify(ch)
            counts[k] += 1
            rep.setdefault(k, ch)
            if k == B:
                bdig.setdefault(unicodedata.decimal(ch), ch)
        rep[O] = "x"
        rep[DOT] = "."
        _TABLE = (counts, rep, bdig)
        # sanity: the interpreter agrees with the class semantics on the representatives
        assert rep[C1].isnumeric() and rep[C1].isdigit() and not rep[C1].isdecimal()
        assert rep[C2].isnumeric() and not rep[C2].isdigit()
        assert int(bdig[7]) == 7 and bdig[7].isnumeric()
        for k in (C1, C2):
            try:
                int(rep[k])
                raise AssertionError("int() accepts class %s" % NAMES[k])
            except ValueError:
                pass
        assert int(" 1_0 ") == 10 and int("+7") == 7
    return _TABLE


class SymChar:
    __slots__ = ("grp", "dig")

    def __init__(self, grp, dig):
        self.grp, self.dig = grp, dig


class SymStr:
    """Not a str subclass on purpose: anything not modelled must not silently run
    on placeholder text."""

    def __init__(self, chars, name="s"):
        self.chars = list(chars)
        self.name = name

    @classmethod
    def fresh(cls, E, name, n):
        table()
        cs = []
        for i in range(n):
            g = E.int("%s.g%d" % (name, i), 0, 9)
            d = E.int("%s.d%d" % (name, i), 0, 9)
            cs.append(SymChar(g, d))
        return cls(cs, name)

    # --- what kernels use
    def __symlen__(self):
        return len(self.chars)

    def __len__(self):
        return len(self.chars)

    def __bool__(self):
        return len(self.chars) > 0

    def _all(self, groups):
        if not self.chars:
            return False
        return conj(*[disj(*[c.grp == g for g in groups]) for c in self.chars])

    def isnumeric(self):
        return self._all((A, B, C1, C2))

    def isdigit(self):
        return self._all((A, B, C1))

    def isdecimal(self):
        return self._all((A, B))

    def isascii(self):
        raise Unsupported("str.isascii on symbolic string")

    def strip(self, chars=None):
        if chars is not None:
            raise Unsupported("strip(chars)")
        cs = self.chars
        i, j = 0, len(cs)
        while i < j and tb(cs[i].grp == W):
            i += 1
        while j > i and tb(cs[j - 1].grp == W):
            j -= 1
        return SymStr(cs[i:j], self.name)

    def __symint__(self):
        body = self.strip().chars
        sign = 1
        if body and tb(body[0].grp == PLUS):
            body = body[1:]
        elif body and tb(body[0].grp == MINUS):
            sign, body = -1, body[1:]
        if not body:
            raise ValueError("invalid literal for int() with base 10")
        digits = []
        prev_us = True
        for c in body:
            if tb(disj(c.grp == A, c.grp == B)):
                digits.append(c.dig)
                prev_us = False
            elif tb(c.grp == US):
                if prev_us:
                    raise ValueError("invalid literal for int() with base 10")
                prev_us = True
            else:
                raise ValueError("invalid literal for int() with base 10")
        if prev_us:
            raise ValueError("invalid literal for int() with base 10")
        v = 0
        for d in digits:
            v = v * 10 + d
        return sign * v

    def __symfloat__(self):
        """float(s) for the decimal-point notation: [sign] digits [. digits] (at least one digit, underscores only
        between digits), surrounding whitespace ignored; exact as a rational (lengths here are far below 15 digits).
        A character of class 'other' could be an exponent marker or part of inf / nan: not modelled."""
        from .core import Rat
        body = self.strip().chars
        sign = 1
        if body and tb(body[0].grp == PLUS):
            body = body[1:]
        elif body and tb(body[0].grp == MINUS):
            sign, body = -1, body[1:]
        digits, frac, seen_dot, prev = [], 0, False, "start"
        for c in body:
            if tb(disj(c.grp == A, c.grp == B)):
                digits.append(c.dig)
                if seen_dot:
                    frac += 1
                prev = "digit"
            elif tb(c.grp == US):
                if prev != "digit":
                    raise ValueError("could not convert string to float")
                prev = "us"
            elif tb(c.grp == DOT):
                if seen_dot or prev == "us":
                    raise ValueError("could not convert string to float")
                seen_dot, prev = True, "dot"
            elif tb(c.grp == O):
                raise Unsupported("float() of a string with a letter-like character (exponent, inf, nan are not modelled)")
            else:
                raise ValueError("could not convert string to float")
        if not digits or prev == "us":
            raise ValueError("could not convert string to float")
        v = 0
        for d in digits:
            v = v * 10 + d
        return Rat(sign * v, 10 ** frac)

    def canonical_decimal(self):
        """All ASCII digits, no leading zero (or the single digit 0)."""
        if not self.chars:
            return False
        c = self._all((A,))
        if len(self.chars) > 1:
            c = conj(c, self.chars[0].dig != 0)
        return c

    def __eq__(self, o):
        if isinstance(o, str):
            if len(o) != len(self.chars):
                return False
            conds = []
            for c, ch in zip(self.chars, o):
                k = classify(ch)
                if k in (A, B):
                    if k == B:
                        raise Unsupported("compare with non-ASCII digit")
                    conds.append(conj(c.grp == A, c.dig == int(ch)))
                elif k in (PLUS, MINUS, US, DOT):
                    conds.append(c.grp == k)
                else:
                    raise Unsupported("compare symbolic string with %r" % o)
            return conj(*conds)
        if o is None:
            return False
        if isinstance(o, SymStr):
            return self is o
        return False

    def __ne__(self, o):
        from .core import neg
        return neg(self.__eq__(o))

    def __hash__(self):
        return 17

    def __str__(self):
        return "<symstr %s>" % self.name

    __repr__ = __str__

    def __format__(self, spec):
        return str(self)

    def __getattr__(self, name):
        if name.startswith("_"):
            raise AttributeError(name)
        raise Unsupported("str.%s on symbolic string" % name)


def concretize(model, name, n):
    counts, rep, bdig = table()
    out = []
    for i in range(n):
        g = int(model["%s.g%d" % (name, i)])
        d = int(model["%s.d%d" % (name, i)])
        if g == A:
            out.append(str(d))
        elif g == B:
            out.append(bdig[d])
        else:
            out.append(rep[g])
    return "".join(out)
